//! C14 correspondence harness: the PUBLIC fs API of tiny-std (/repo/tiny-std/src/fs.rs:
//! `write`, `read`, `copy_file`, `create_dir_all`, `remove_dir_all`, `Directory`, `OpenOptions`,
//! `FileType`) run inside a sandbox directory, observed by an independent std::fs dump, optionally
//! next to the equivalent std::fs operation on a twin sandbox.
//!
//! Usage: `c14` (plain) or `c14 --twin`.  One answer line per stdin line; unknown / unparseable /
//! refused by the guard => `bad-op`.  Byte strings are lowercase hex, empty = `-`; tokens are
//! separated by single spaces.  The process runs as root: every path argument passes `guard` first
//! and nothing outside the sandboxes `/tmp/c14.*` is touched.
//!
//! State: sandbox A (tiny-std ops, cwd = A while they run) and, in `--twin` mode, sandbox B (the
//! std::fs op, cwd = B).  EOF or `end`: chdir `/`, remove A and B.
//!
//! Lines
//!   init <hexabs>          abs path, starts with `/tmp/c14.`, ends with byte `A`, no `..`/NUL, every
//!                          existing intermediate component a real directory.  B = same with the final
//!                          `A` -> `B`.  Old A/B removed, A (and B in twin mode) created empty.  `ok`
//!   tree <tok>...          wipe the children of A (and B), then build (std/libc only), preorder:
//!                          `D<name>` mkdir + descend, `U` up, `F<name>:<content>`, `L<name>:<target>`
//!                          symlink, `P<name>` fifo, `S<name>` unix socket (bound, listener dropped), `C<name>`
//!                          character device (1,3), `B<name>` block device (7,250; never opened).  Names 1..=255 bytes, no `/`, NUL, `.`, `..`, no
//!                          duplicates in one directory; targets non-empty, relative and lexically never
//!                          above the sandbox root; else `bad-op` (nothing built).  Result `ok`
//!                          (`err <E>` if std itself failed while building).
//!   write <path> <data> [s<k1>,<k2>..]   fs::write, then fs::read: `ok read=<hex>` | `ok readerr=<E>` | `err <E>`
//!                          script: the i-th WRITE syscall issued is performed for real with
//!                          len = min(len, k_i) when k_i > 0; k_i == 0 / script exhausted = pass through
//!   read <path>            fs::read: `ok <hex>` | `err <E>`
//!   meta <path>            fs::metadata + fs::exists: `ok dfl=<is_dir><is_file><is_symlink> len=<n|-> ex=<0|1|err:E>`
//!                          | `err <E> ex=..`; twin: std::fs::metadata + Path::try_exists in the same format
//!   copy <src> <dst> [s..] fs::copy_file: `ok` | `err <E>`; script applies to COPY_FILE_RANGE (len = arg 4)
//!   mkdirall <path>        fs::create_dir_all: `ok` | `err <E>`
//!   rmall <path>           fs::remove_dir_all: `ok` | `err <E>`
//!   readdir <path> [<recs>] recs = `t<d_type>:<hexname>,...` in kernel order.  (a) own raw
//!                          openat(O_RDONLY|O_CLOEXEC|O_DIRECTORY) + getdents64 (64 KiB buffer) gives the
//!                          kernel's records; open failure => `err <E>`.  (b) `<recs>` given and different
//!                          => `order-drift <actual recs>`.  (c) `Directory::open(path)` + `dir.read()`
//!                          under the sc-shim log:
//!                          `ok recs=<kernel recs> reclens=<d_reclen,..> calls=<getdents64 returns seen by
//!                          tiny-std, signed> yields=<t<n>:<hexname>,..|-> rel=<0/1 per yield|->`;
//!                          an `Err` item / failed open => `err <E>`.
//!   readdirs <path> [<recs> <split>]  like readdir, but every GETDENTS64 tiny-std issues is answered by the
//!                          harness from the kernel's own records (taken beforehand, raw bytes): split =
//!                          `g<item>,..`, item `<n>` = the next n records in one answer (EINVAL if they do not
//!                          fit the caller's buffer), `z` = 0, `e<errno>` = -errno; exhausted script = 0.
//!                          After the first `None`/`Err` item `next()` is called three more times:
//!                          `ok recs= reclens= calls= yields= rel= end=<done|err:E> more=<d|e<E>|y>,..`.
//!                          Without recs/split (the twin run) it is `readdir`.
//!   opts <rwatcn>          six 0/1 chars = read write append truncate create create_new; OpenOptions
//!                          `.open("opts-probe")` in A under the log: `flags <decimal flags of the
//!                          OPENAT/OPEN issued>` | `badopts` (no open syscall issued).  No dump.
//!   end                    remove sandboxes, `ok`
//!
//! `<E>` = positive errno (tiny-std `Error::Os{code}` / std `raw_os_error()`), else `nocode`.
//! A panic inside the code under test => result `panic` (sc-shim is reset).
//!
//! Output of tree/write/read/copy/mkdirall/rmall/readdir:
//!   plain: `<result> | <dumpA>`
//!   twin:  `<result> | <dumpA> | std=<stdresult> | <same|dumpB>`
//! stdresult: write -> std::fs::write + read (`ok read=`/`ok readerr=`/`err`), read, copy (std::fs::copy),
//! mkdirall, rmall, readdir -> `ok <t<n>:<hexname> sorted by name, no ./..>` | `err <E>`, tree -> `ok`.
//! B path = the same relative path (cwd B), or the absolute path with the A prefix replaced by B.
//!
//! Dump (std::fs only, never follows symlinks): preorder, children sorted by name bytes, same
//! grammar as `tree`: `D<name> .. U`, `F<name>:<content>`, `L<name>:<target>`, `P<name>`, `S<name>`, `C<name>`, `B<name>`,
//! `X<name>` anything else; empty sandbox = `-`.  Something the observer could not read shows as a
//! `?<errno>` token (never expected).
//!
//! Guard (std only, never panics; A path against A, mapped path against B): no NUL; the empty path
//! passes (the kernel answers ENOENT); an absolute path must be A or start with `A/`.  The rest is
//! walked component by component from the sandbox root by chdir + symlink_metadata + read_link:
//! symlinks are expanded (absolute targets refused), `..` at the root is refused, components below
//! a missing / non-directory component are taken lexically, so no intermediate or final location
//! ever leaves the sandbox.  More than 64 symlink expansions pass (the kernel fails with ELOOP at
//! 40).  Then the longest existing prefix that `canonicalize`s must be at or below the canonical
//! root.  `rmall`: the resolved location must be strictly below the root.  Ops that would open a
//! FIFO or a device node (write/read/copy/rmall/readdir whose resolved target is a fifo, character or
//! block device) are refused too: the open would block forever / reach a driver.  Sockets are let
//! through (the open fails with ENXIO).
#![allow(clippy::all)]
use std::collections::{HashSet, VecDeque};
use std::ffi::{CString, OsStr, OsString};
use std::io::{BufRead, Write};
use std::os::unix::ffi::{OsStrExt, OsStringExt};
use std::os::unix::fs::FileTypeExt;
use std::panic::{catch_unwind, AssertUnwindSafe};
use std::path::{Path, PathBuf};

use rusl::string::unix_str::UnixStr;
use tiny_std::fs::{Directory, FileType, OpenOptions};

extern "C" {
    fn mkfifo(path: *const std::os::raw::c_char, mode: u32) -> i32;
}

const PREFIX: &[u8] = b"/tmp/c14.";
const PROBE: &[u8] = b"opts-probe";

// ---------------------------------------------------------------------------------------------
// hex
const HEX: &[u8; 16] = b"0123456789abcdef";

fn push_hex(out: &mut String, b: &[u8]) {
    if b.is_empty() {
        out.push('-');
        return;
    }
    out.reserve(b.len() * 2);
    for x in b {
        out.push(HEX[(x >> 4) as usize] as char);
        out.push(HEX[(x & 15) as usize] as char);
    }
}
fn hex(b: &[u8]) -> String {
    let mut s = String::new();
    push_hex(&mut s, b);
    s
}
fn unhex(s: &str) -> Option<Vec<u8>> {
    if s == "-" {
        return Some(Vec::new());
    }
    let b = s.as_bytes();
    if b.is_empty() || b.len() % 2 != 0 {
        return None;
    }
    fn nib(c: u8) -> Option<u8> {
        match c {
            b'0'..=b'9' => Some(c - b'0'),
            b'a'..=b'f' => Some(c - b'a' + 10),
            _ => None,
        }
    }
    let mut out = Vec::with_capacity(b.len() / 2);
    for p in b.chunks_exact(2) {
        out.push(nib(p[0])? * 16 + nib(p[1])?);
    }
    Some(out)
}

fn tiny_e(e: &tiny_std::Error) -> String {
    match e {
        tiny_std::Error::Os { code, .. } => code.raw().to_string(),
        _ => "nocode".to_string(),
    }
}
fn io_e(e: &std::io::Error) -> String {
    match e.raw_os_error() {
        Some(n) => n.to_string(),
        None => "nocode".to_string(),
    }
}
fn os(b: &[u8]) -> &OsStr {
    OsStr::from_bytes(b)
}
fn nul_terminated(b: &[u8]) -> Vec<u8> {
    let mut v = Vec::with_capacity(b.len() + 1);
    v.extend_from_slice(b);
    v.push(0);
    v
}
/// caller guarantees `z` ends with its only NUL
fn ustr(z: &[u8]) -> &UnixStr {
    unsafe { UnixStr::from_bytes_unchecked(z) }
}

// ---------------------------------------------------------------------------------------------
// sandbox state
struct Sb {
    a: Vec<u8>,
    b: Vec<u8>,
    a_canon: PathBuf,
    b_canon: Option<PathBuf>,
    twin: bool,
}

fn remove_any(p: &Path) {
    match std::fs::symlink_metadata(p) {
        Ok(md) if md.is_dir() => {
            let _ = std::fs::remove_dir_all(p);
        }
        Ok(_) => {
            let _ = std::fs::remove_file(p);
        }
        Err(_) => {}
    }
}

fn valid_init_path(p: &[u8]) -> bool {
    if !p.starts_with(PREFIX) || p.len() <= PREFIX.len() || *p.last().unwrap() != b'A' {
        return false;
    }
    if p.contains(&0) || p.windows(2).any(|w| w == b"..") || p.windows(2).any(|w| w == b"//") {
        return false;
    }
    // every existing intermediate component below /tmp must be a real directory (not a symlink)
    for (i, c) in p.iter().enumerate() {
        if *c == b'/' && i >= PREFIX.len() {
            match std::fs::symlink_metadata(os(&p[..i])) {
                Ok(md) => {
                    if !md.is_dir() {
                        return false;
                    }
                }
                Err(e) if e.kind() == std::io::ErrorKind::NotFound => break,
                Err(_) => return false,
            }
        }
    }
    true
}

fn do_init(p: Vec<u8>, twin: bool) -> Option<Sb> {
    if !valid_init_path(&p) {
        return None;
    }
    let a = p.clone();
    let mut b = p;
    *b.last_mut().unwrap() = b'B';
    let _ = std::env::set_current_dir("/");
    remove_any(Path::new(os(&a)));
    remove_any(Path::new(os(&b)));
    let tmp = std::fs::canonicalize("/tmp").ok()?;
    std::fs::create_dir_all(os(&a)).ok()?;
    let a_canon = std::fs::canonicalize(os(&a)).ok()?;
    if !a_canon.starts_with(&tmp) || a_canon == tmp {
        return None;
    }
    let b_canon = if twin {
        std::fs::create_dir_all(os(&b)).ok()?;
        let c = std::fs::canonicalize(os(&b)).ok()?;
        if !c.starts_with(&tmp) || c == tmp {
            return None;
        }
        Some(c)
    } else {
        None
    };
    Some(Sb { a, b, a_canon, b_canon, twin })
}

fn cleanup(sb: &Sb) {
    let _ = std::env::set_current_dir("/");
    for root in [&sb.a, &sb.b] {
        remove_any(Path::new(os(root)));
        // init paths with intermediate directories: drop those that are now empty (rmdir only)
        let mut p = root.clone();
        while let Some(i) = p.iter().rposition(|c| *c == b'/') {
            p.truncate(i);
            if p.len() <= PREFIX.len() || !p.starts_with(PREFIX) {
                break;
            }
            if std::fs::remove_dir(os(&p)).is_err() {
                break;
            }
        }
    }
}

// ---------------------------------------------------------------------------------------------
// guard
enum Walk {
    Reject,
    Loop,
    At { depth: usize, vnames: Vec<Vec<u8>> },
}

/// Resolve `rel` from `root` one component at a time (cwd follows the real directories).
fn walk(root: &Path, rel: &[u8]) -> Walk {
    if std::env::set_current_dir(root).is_err() {
        return Walk::Reject;
    }
    let mut pending: Vec<Vec<u8>> = rel.split(|c| *c == b'/').rev().map(|c| c.to_vec()).collect();
    let mut depth = 0usize;
    let mut vnames: Vec<Vec<u8>> = Vec::new();
    let mut follows = 0usize;
    while let Some(c) = pending.pop() {
        if c.is_empty() || c == b"." {
            continue;
        }
        if c == b".." {
            if vnames.pop().is_some() {
                continue;
            }
            if depth == 0 {
                return Walk::Reject;
            }
            if std::env::set_current_dir("..").is_err() {
                return Walk::Reject;
            }
            depth -= 1;
            continue;
        }
        if !vnames.is_empty() {
            vnames.push(c);
            continue;
        }
        let name = Path::new(os(&c));
        match std::fs::symlink_metadata(name) {
            Ok(md) if md.file_type().is_symlink() => {
                follows += 1;
                if follows > 64 {
                    return Walk::Loop;
                }
                let t = match std::fs::read_link(name) {
                    Ok(t) => t,
                    Err(_) => return Walk::Reject,
                };
                let tb = t.as_os_str().as_bytes();
                if tb.is_empty() || tb[0] == b'/' {
                    return Walk::Reject;
                }
                for part in tb.split(|c| *c == b'/').rev() {
                    pending.push(part.to_vec());
                }
            }
            Ok(md) if md.is_dir() => {
                if std::env::set_current_dir(name).is_err() {
                    return Walk::Reject;
                }
                depth += 1;
            }
            _ => vnames.push(c),
        }
    }
    Walk::At { depth, vnames }
}

/// spec check: longest existing prefix of root/rel that canonicalizes lies at or below the root
fn canon_check(root: &[u8], root_canon: &Path, rel: &[u8], strict: bool) -> bool {
    let mut full = root.to_vec();
    full.push(b'/');
    full.extend_from_slice(rel);
    if strict {
        if let Ok(c) = std::fs::canonicalize(os(&full)) {
            if c == root_canon || !c.starts_with(root_canon) {
                return false;
            }
        }
    }
    loop {
        while full.len() > root.len() && *full.last().unwrap() == b'/' {
            full.pop();
        }
        if full.len() <= root.len() {
            return true;
        }
        let p = Path::new(os(&full));
        if std::fs::symlink_metadata(p).is_ok() {
            if let Ok(c) = std::fs::canonicalize(p) {
                return c.starts_with(root_canon);
            }
        }
        match full.iter().rposition(|c| *c == b'/') {
            Some(i) => full.truncate(i),
            None => return true,
        }
    }
}

#[derive(Clone, Copy, PartialEq)]
enum Kind {
    Plain,   // mkdirall: nothing is opened
    Opens,   // the final target gets opened: refuse fifos
    Rm,      // rmall: Opens + strictly below the root
}

/// `path` as given on the line; `root`/`root_canon` = the sandbox it is meant for;
/// `abs_root` = the byte prefix an absolute path must carry (== root).
fn guard_one(root: &[u8], root_canon: &Path, path: &[u8], kind: Kind) -> bool {
    if path.contains(&0) {
        return false;
    }
    if path.is_empty() {
        return true;
    }
    let rel: &[u8] = if path[0] == b'/' {
        if !path.starts_with(root) {
            return false;
        }
        let rest = &path[root.len()..];
        if !(rest.is_empty() || rest[0] == b'/') {
            return false;
        }
        rest
    } else {
        path
    };
    let ok = match walk(Path::new(os(root)), rel) {
        Walk::Reject => false,
        Walk::Loop => true,
        Walk::At { depth, vnames } => {
            let mut ok = true;
            if kind == Kind::Rm && depth + vnames.len() == 0 {
                ok = false;
            }
            if ok && kind != Kind::Plain && vnames.len() == 1 {
                if let Ok(md) = std::fs::symlink_metadata(os(&vnames[0])) {
                    let ft = md.file_type();
                    if ft.is_fifo() || ft.is_char_device() || ft.is_block_device() {
                        ok = false;
                    }
                }
            }
            ok
        }
    };
    let _ = std::env::set_current_dir("/");
    ok && canon_check(root, root_canon, rel, kind == Kind::Rm)
}

impl Sb {
    /// the path the std op uses on B
    fn map_b(&self, path: &[u8]) -> Vec<u8> {
        if !path.is_empty() && path[0] == b'/' && path.starts_with(&self.a) {
            let mut v = self.b.clone();
            v.extend_from_slice(&path[self.a.len()..]);
            v
        } else {
            path.to_vec()
        }
    }
    fn guard(&self, paths: &[(&[u8], Kind)]) -> bool {
        for (p, k) in paths {
            if !guard_one(&self.a, &self.a_canon, p, *k) {
                return false;
            }
            if self.twin {
                let bc = match &self.b_canon {
                    Some(c) => c,
                    None => return false,
                };
                let pb = self.map_b(p);
                if !guard_one(&self.b, bc, &pb, *k) {
                    return false;
                }
            }
        }
        true
    }
    fn enter_a(&self) -> bool {
        std::env::set_current_dir(os(&self.a)).is_ok()
    }
    fn enter_b(&self) -> bool {
        std::env::set_current_dir(os(&self.b)).is_ok()
    }
}

// ---------------------------------------------------------------------------------------------
// dump (independent observer)
fn dump_dir(dir: &Path, out: &mut String) {
    let rd = match std::fs::read_dir(dir) {
        Ok(rd) => rd,
        Err(e) => {
            out.push('?');
            out.push_str(&io_e(&e));
            out.push(' ');
            return;
        }
    };
    let mut ents: Vec<(Vec<u8>, Option<std::fs::FileType>)> = Vec::new();
    for ent in rd {
        match ent {
            Ok(ent) => {
                let ft = ent.metadata().ok().map(|m| m.file_type()); // fstatat NOFOLLOW == symlink_metadata
                ents.push((ent.file_name().into_vec(), ft));
            }
            Err(e) => {
                out.push('?');
                out.push_str(&io_e(&e));
                out.push(' ');
                return;
            }
        }
    }
    ents.sort_by(|x, y| x.0.cmp(&y.0));
    for (name, ft) in ents {
        let p = dir.join(os(&name));
        match ft {
            Some(ft) if ft.is_dir() => {
                out.push('D');
                push_hex(out, &name);
                out.push(' ');
                // descend by chdir so the depth is not limited by PATH_MAX (`p` is a real directory: lstat)
                if std::env::set_current_dir(&p).is_ok() {
                    dump_dir(Path::new("."), out);
                    let _ = std::env::set_current_dir("..");
                } else {
                    out.push_str("?chdir ");
                }
                out.push_str("U ");
            }
            Some(ft) if ft.is_file() => {
                out.push('F');
                push_hex(out, &name);
                out.push(':');
                match std::fs::read(&p) {
                    Ok(c) => push_hex(out, &c),
                    Err(e) => {
                        out.push('?');
                        out.push_str(&io_e(&e));
                    }
                }
                out.push(' ');
            }
            Some(ft) if ft.is_symlink() => {
                out.push('L');
                push_hex(out, &name);
                out.push(':');
                match std::fs::read_link(&p) {
                    Ok(t) => push_hex(out, t.as_os_str().as_bytes()),
                    Err(e) => {
                        out.push('?');
                        out.push_str(&io_e(&e));
                    }
                }
                out.push(' ');
            }
            Some(ft) if ft.is_fifo() || ft.is_socket() || ft.is_char_device() || ft.is_block_device() => {
                out.push(if ft.is_fifo() {
                    'P'
                } else if ft.is_socket() {
                    'S'
                } else if ft.is_char_device() {
                    'C'
                } else {
                    'B'
                });
                push_hex(out, &name);
                out.push(' ');
            }
            _ => {
                out.push('X');
                push_hex(out, &name);
                out.push(' ');
            }
        }
    }
}

fn dump(root: &[u8]) -> String {
    if std::env::set_current_dir(os(root)).is_err() {
        return "?chdir".to_string();
    }
    let mut out = String::new();
    dump_dir(Path::new("."), &mut out);
    let _ = std::env::set_current_dir("/");
    if out.ends_with(' ') {
        out.pop();
    }
    if out.is_empty() {
        out.push('-');
    }
    out
}

fn finish(sb: &Sb, result: String, stdres: Option<String>) -> String {
    let da = dump(&sb.a);
    if sb.twin {
        let db = dump(&sb.b);
        let tail = if db == da { "same".to_string() } else { db };
        format!("{} | {} | std={} | {}", result, da, stdres.unwrap_or_else(|| "ok".to_string()), tail)
    } else {
        format!("{} | {}", result, da)
    }
}

// ---------------------------------------------------------------------------------------------
// tree
enum TOp {
    Dir(Vec<u8>),
    Up,
    File(Vec<u8>, Vec<u8>),
    Link(Vec<u8>, Vec<u8>),
    Fifo(Vec<u8>),
    Sock(Vec<u8>),
    Chr(Vec<u8>),
    Blk(Vec<u8>),
}

fn valid_name(n: &[u8]) -> bool {
    !n.is_empty() && n.len() <= 255 && !n.contains(&b'/') && !n.contains(&0) && n != b"." && n != b".."
}

fn parse_tree(toks: &[&str]) -> Option<Vec<TOp>> {
    let mut ops = Vec::with_capacity(toks.len());
    let mut seen: Vec<HashSet<Vec<u8>>> = vec![HashSet::new()];
    for t in toks {
        if t.is_empty() || !t.is_char_boundary(1) {
            return None;
        }
        let (h, rest) = t.split_at(1);
        let fresh = |seen: &mut Vec<HashSet<Vec<u8>>>, n: &Vec<u8>| -> bool {
            valid_name(n) && seen.last_mut().unwrap().insert(n.clone())
        };
        match h {
            "U" => {
                if !rest.is_empty() || seen.len() <= 1 {
                    return None;
                }
                seen.pop();
                ops.push(TOp::Up);
            }
            "D" => {
                let n = unhex(rest)?;
                if !fresh(&mut seen, &n) {
                    return None;
                }
                seen.push(HashSet::new());
                ops.push(TOp::Dir(n));
            }
            "P" | "S" | "C" | "B" => {
                let n = unhex(rest)?;
                if !fresh(&mut seen, &n) {
                    return None;
                }
                ops.push(match h {
                    "P" => TOp::Fifo(n),
                    "S" => TOp::Sock(n),
                    "C" => TOp::Chr(n),
                    _ => TOp::Blk(n),
                });
            }
            "F" | "L" => {
                let (a, b) = rest.split_once(':')?;
                let n = unhex(a)?;
                let c = unhex(b)?;
                if !fresh(&mut seen, &n) {
                    return None;
                }
                if h == "F" {
                    ops.push(TOp::File(n, c));
                } else {
                    if c.is_empty() || c[0] == b'/' || c.contains(&0) {
                        return None;
                    }
                    let mut d = (seen.len() - 1) as i64; // depth of the link's directory
                    for part in c.split(|x| *x == b'/') {
                        if part.is_empty() || part == b"." {
                            continue;
                        }
                        if part == b".." {
                            d -= 1;
                            if d < 0 {
                                return None;
                            }
                        } else {
                            d += 1;
                        }
                    }
                    ops.push(TOp::Link(n, c));
                }
            }
            _ => return None,
        }
    }
    Some(ops)
}

fn wipe_children(root: &Path) -> std::io::Result<()> {
    for ent in std::fs::read_dir(root)? {
        let ent = ent?;
        let p = ent.path();
        let md = std::fs::symlink_metadata(&p)?;
        if md.is_dir() {
            std::fs::remove_dir_all(&p)?;
        } else {
            std::fs::remove_file(&p)?;
        }
    }
    Ok(())
}

fn build_tree(root: &[u8], ops: &[TOp]) -> std::io::Result<()> {
    let rootp = PathBuf::from(OsString::from_vec(root.to_vec()));
    wipe_children(&rootp)?;
    let mut cur = rootp;
    for op in ops {
        match op {
            TOp::Dir(n) => {
                cur.push(os(n));
                std::fs::create_dir(&cur)?;
            }
            TOp::Up => {
                cur.pop();
            }
            TOp::File(n, c) => std::fs::write(cur.join(os(n)), c)?,
            TOp::Link(n, t) => std::os::unix::fs::symlink(os(t), cur.join(os(n)))?,
            TOp::Fifo(n) => {
                let p = cur.join(os(n));
                let c = CString::new(p.as_os_str().as_bytes())
                    .map_err(|_| std::io::Error::from_raw_os_error(22))?;
                if unsafe { mkfifo(c.as_ptr(), 0o644) } != 0 {
                    return Err(std::io::Error::last_os_error());
                }
            }
            TOp::Sock(n) => {
                // sun_path holds 107 bytes: bind a short name inside the directory, then rename it into place
                std::env::set_current_dir(&cur)?;
                let r = std::os::unix::net::UnixListener::bind(".c14sk").and_then(|l| {
                    drop(l);
                    std::fs::rename(".c14sk", os(n))
                });
                let _ = std::env::set_current_dir("/");
                r?;
            }
            TOp::Chr(n) | TOp::Blk(n) => {
                // a character device (1,3 = null) / a block device number nothing is attached to; never opened
                let chr = matches!(op, TOp::Chr(_));
                let p = cur.join(os(n));
                let c = CString::new(p.as_os_str().as_bytes())
                    .map_err(|_| std::io::Error::from_raw_os_error(22))?;
                let (mode, dev) = if chr { (0o020000 | 0o644, (1usize << 8) | 3) } else { (0o060000 | 0o644, (7usize << 8) | 250) };
                let r = unsafe { sc::raw_syscall6(sc::nr::MKNOD, c.as_ptr() as usize, mode, dev, 0, 0, 0) } as isize;
                if r < 0 {
                    return Err(std::io::Error::from_raw_os_error((-r) as i32));
                }
            }
        }
    }
    Ok(())
}

// ---------------------------------------------------------------------------------------------
// short-count scripts
fn parse_script(t: &str) -> Option<Vec<usize>> {
    let rest = t.strip_prefix('s')?;
    if rest.is_empty() {
        return Some(Vec::new());
    }
    rest.split(',').map(|x| if x.bytes().all(|c| c.is_ascii_digit()) { x.parse().ok() } else { None }).collect()
}

fn install_script(nr: usize, len_idx: usize, script: Vec<usize>) {
    let mut q: VecDeque<usize> = script.into();
    sc::shim::set_handler(Box::new(move |n, a, _| {
        if n != nr {
            return None;
        }
        match q.pop_front() {
            Some(k) if k > 0 => {
                let mut a = a;
                a[len_idx] = a[len_idx].min(k);
                Some(unsafe { sc::raw_syscall6(n, a[0], a[1], a[2], a[3], a[4], a[5]) })
            }
            _ => None,
        }
    }));
}

/// one scripted answer of getdents64
#[derive(Clone, Copy)]
enum Split {
    N(usize), // the next n records of the directory, stored back to back
    Z,        // 0
    E(usize), // -errno
}

fn parse_split(t: &str) -> Option<Vec<Split>> {
    let rest = t.strip_prefix('g')?;
    if rest.is_empty() {
        return Some(Vec::new());
    }
    rest.split(',')
        .map(|x| {
            if x == "z" {
                Some(Split::Z)
            } else if let Some(e) = x.strip_prefix('e') {
                if !e.is_empty() && e.bytes().all(|c| c.is_ascii_digit()) {
                    e.parse().ok().filter(|e| (1..=4095).contains(e)).map(Split::E)
                } else {
                    None
                }
            } else if !x.is_empty() && x.bytes().all(|c| c.is_ascii_digit()) {
                x.parse().ok().map(Split::N)
            } else {
                None
            }
        })
        .collect()
}

/// every GETDENTS64 issued from now on is answered from `script` over the kernel's own records `raws` (taken with a
/// 64 KiB buffer beforehand): `N(k)` copies the next k records into the caller's buffer and returns their length
/// (EINVAL if they do not fit), `Z` / exhausted script returns 0, `E(e)` returns -e.  Nothing reaches the kernel.
fn install_split(script: Vec<Split>, raws: Vec<Vec<u8>>) {
    let mut q: VecDeque<Split> = script.into();
    let mut pos = 0usize;
    sc::shim::set_handler(Box::new(move |n, a, _| {
        if n != sc::nr::GETDENTS64 {
            return None;
        }
        match q.pop_front() {
            None | Some(Split::Z) => Some(0),
            Some(Split::E(e)) => Some(sc::shim::neg_errno(e)),
            Some(Split::N(k)) => {
                let take = k.min(raws.len() - pos);
                let chunk = &raws[pos..pos + take];
                pos += take;
                let total: usize = chunk.iter().map(|r| r.len()).sum();
                if total > a[2] {
                    return Some(sc::shim::neg_errno(22));
                }
                let mut dst = a[1] as *mut u8;
                for r in chunk {
                    unsafe {
                        std::ptr::copy_nonoverlapping(r.as_ptr(), dst, r.len());
                        dst = dst.add(r.len());
                    }
                }
                Some(total)
            }
        }
    }));
}

/// run the code under test: panics become `panic`, the interposer is always left clean
fn under_test<F: FnOnce() -> String>(f: F) -> String {
    let r = catch_unwind(AssertUnwindSafe(f));
    sc::shim::reset();
    match r {
        Ok(s) => s,
        Err(_) => "panic".to_string(),
    }
}

// ---------------------------------------------------------------------------------------------
// readdir helpers
fn raw_dents(pathz: &[u8]) -> Result<Vec<(u8, Vec<u8>, u16, Vec<u8>)>, i64> {
    const O_CLOEXEC: usize = 0o2000000;
    const O_DIRECTORY: usize = 0o200000;
    let at_fdcwd = (-100isize) as usize;
    let fd = unsafe {
        sc::raw_syscall6(sc::nr::OPENAT, at_fdcwd, pathz.as_ptr() as usize, O_CLOEXEC | O_DIRECTORY, 0, 0, 0)
    } as isize;
    if fd < 0 {
        return Err(-(fd as i64));
    }
    let mut out = Vec::new();
    let mut buf = vec![0u8; 65536];
    let mut res = Ok(());
    loop {
        let n = unsafe {
            sc::raw_syscall6(sc::nr::GETDENTS64, fd as usize, buf.as_mut_ptr() as usize, buf.len(), 0, 0, 0)
        } as isize;
        if n < 0 {
            res = Err(-(n as i64));
            break;
        }
        if n == 0 {
            break;
        }
        let n = n as usize;
        let mut off = 0usize;
        while off + 19 <= n {
            let reclen = u16::from_ne_bytes([buf[off + 16], buf[off + 17]]);
            let ty = buf[off + 18];
            let end = (off + reclen as usize).min(n);
            let name_area = &buf[off + 19..end];
            let l = name_area.iter().position(|c| *c == 0).unwrap_or(name_area.len());
            out.push((ty, name_area[..l].to_vec(), reclen, buf[off..end].to_vec()));
            if reclen == 0 {
                break;
            }
            off += reclen as usize;
        }
    }
    unsafe { sc::raw_syscall6(sc::nr::CLOSE, fd as usize, 0, 0, 0, 0, 0) };
    res.map(|_| out)
}

fn recs_str<'a, I: Iterator<Item = (u8, &'a [u8])>>(it: I) -> String {
    let mut s = String::new();
    for (t, n) in it {
        if !s.is_empty() {
            s.push(',');
        }
        s.push('t');
        s.push_str(&t.to_string());
        s.push(':');
        push_hex(&mut s, n);
    }
    if s.is_empty() {
        s.push('-');
    }
    s
}

fn ft_num(ft: FileType) -> u8 {
    match ft {
        FileType::Fifo => 1,
        FileType::CharDevice => 2,
        FileType::Directory => 4,
        FileType::BlockDevice => 6,
        FileType::RegularFile => 8,
        FileType::Symlink => 10,
        FileType::Socket => 12,
        FileType::Unknown => 0,
    }
}
fn std_ft_num(ft: std::fs::FileType) -> u8 {
    if ft.is_fifo() {
        1
    } else if ft.is_char_device() {
        2
    } else if ft.is_dir() {
        4
    } else if ft.is_block_device() {
        6
    } else if ft.is_file() {
        8
    } else if ft.is_symlink() {
        10
    } else if ft.is_socket() {
        12
    } else {
        0
    }
}

fn readdir_tiny(pathz: &[u8], expect: Option<&str>, split: Option<Vec<Split>>) -> String {
    let recs = match raw_dents(pathz) {
        Ok(r) => r,
        Err(e) => return format!("err {}", e),
    };
    let actual = recs_str(recs.iter().map(|(t, n, _, _)| (*t, n.as_slice())));
    if let Some(x) = expect {
        if x != actual {
            return format!("order-drift {}", actual);
        }
    }
    let reclens = if recs.is_empty() {
        "-".to_string()
    } else {
        recs.iter().map(|r| r.2.to_string()).collect::<Vec<_>>().join(",")
    };
    let scripted = split.is_some();
    let raws: Vec<Vec<u8>> = recs.iter().map(|r| r.3.clone()).collect();
    under_test(|| {
        sc::shim::start_log();
        let mut yields: Vec<(u8, Vec<u8>)> = Vec::new();
        let mut rel = String::new();
        let mut err: Option<String> = None;
        let mut end = "done".to_string();
        let mut more: Vec<String> = Vec::new();
        match Directory::open(ustr(pathz)) {
            Err(e) => err = Some(tiny_e(&e)),
            Ok(dir) => {
                if let Some(sp) = split {
                    install_split(sp, raws);
                }
                let mut it = dir.read();
                loop {
                    match it.next() {
                        None => break,
                        Some(Err(e)) => {
                            if scripted {
                                end = format!("err:{}", tiny_e(&e));
                            } else {
                                err = Some(tiny_e(&e));
                            }
                            break;
                        }
                        Some(Ok(ent)) => {
                            let n = ft_num(ent.file_type());
                            match ent.file_unix_name() {
                                Ok(u) => {
                                    let s = u.as_slice();
                                    yields.push((n, s[..s.len().saturating_sub(1)].to_vec()));
                                }
                                Err(e) => {
                                    err = Some(tiny_e(&e));
                                    break;
                                }
                            }
                            rel.push(if ent.is_relative_reference() { '1' } else { '0' });
                        }
                    }
                }
                if scripted && err.is_none() {
                    // `None`/`Err` must be final: three more calls
                    for _ in 0..3 {
                        more.push(match it.next() {
                            None => "d".to_string(),
                            Some(Err(e)) => format!("e{}", tiny_e(&e)),
                            Some(Ok(_)) => "y".to_string(),
                        });
                    }
                }
                sc::shim::clear_handler();
            }
        }
        let log = sc::shim::take_log();
        if let Some(e) = err {
            return format!("err {}", e);
        }
        let calls: Vec<String> =
            log.iter().filter(|r| r.nr == sc::nr::GETDENTS64).map(|r| (r.ret as isize).to_string()).collect();
        let calls = if calls.is_empty() { "-".to_string() } else { calls.join(",") };
        if rel.is_empty() {
            rel.push('-');
        }
        let mut out = format!(
            "ok recs={} reclens={} calls={} yields={} rel={}",
            actual,
            reclens,
            calls,
            recs_str(yields.iter().map(|(t, n)| (*t, n.as_slice()))),
            rel
        );
        if scripted {
            out.push_str(&format!(" end={} more={}", end, more.join(",")));
        }
        out
    })
}

fn readdir_std(path: &[u8]) -> String {
    let rd = match std::fs::read_dir(os(path)) {
        Ok(rd) => rd,
        Err(e) => return format!("err {}", io_e(&e)),
    };
    let mut v: Vec<(Vec<u8>, u8)> = Vec::new();
    for ent in rd {
        match ent {
            Err(e) => return format!("err {}", io_e(&e)),
            Ok(ent) => {
                let t = match ent.file_type() {
                    Ok(ft) => std_ft_num(ft),
                    Err(e) => return format!("err {}", io_e(&e)),
                };
                v.push((ent.file_name().into_vec(), t));
            }
        }
    }
    v.sort();
    format!("ok {}", recs_str(v.iter().map(|(n, t)| (*t, n.as_slice()))))
}

// ---------------------------------------------------------------------------------------------
// the ops
fn std_unit(r: std::io::Result<()>) -> String {
    match r {
        Ok(()) => "ok".to_string(),
        Err(e) => format!("err {}", io_e(&e)),
    }
}
fn tiny_unit(r: tiny_std::Result<()>) -> String {
    match r {
        Ok(()) => "ok".to_string(),
        Err(e) => format!("err {}", tiny_e(&e)),
    }
}

fn handle(sb: &Sb, w: &[&str]) -> String {
    const BAD: &str = "bad-op";
    match w {
        ["tree", toks @ ..] => {
            let ops = match parse_tree(toks) {
                Some(o) => o,
                None => return BAD.to_string(),
            };
            let _ = std::env::set_current_dir("/");
            let mut r = build_tree(&sb.a, &ops);
            if r.is_ok() && sb.twin {
                r = build_tree(&sb.b, &ops);
            }
            finish(sb, std_unit(r), Some("ok".to_string()))
        }
        ["write", p, d] | ["write", p, d, _] => {
            let (p, d) = match (unhex(p), unhex(d)) {
                (Some(p), Some(d)) => (p, d),
                _ => return BAD.to_string(),
            };
            let script = match w.get(3) {
                Some(t) => match parse_script(t) {
                    Some(s) => Some(s),
                    None => return BAD.to_string(),
                },
                None => None,
            };
            if !sb.guard(&[(&p, Kind::Opens)]) || !sb.enter_a() {
                return BAD.to_string();
            }
            let pz = nul_terminated(&p);
            let res = under_test(|| {
                if let Some(s) = script {
                    install_script(sc::nr::WRITE, 2, s);
                }
                let r = tiny_std::fs::write(ustr(&pz), &d);
                sc::shim::clear_handler();
                match r {
                    Err(e) => format!("err {}", tiny_e(&e)),
                    Ok(()) => match tiny_std::fs::read(ustr(&pz)) {
                        Ok(b) => format!("ok read={}", hex(&b)),
                        Err(e) => format!("ok readerr={}", tiny_e(&e)),
                    },
                }
            });
            let stdres = if sb.twin {
                if !sb.enter_b() {
                    return BAD.to_string();
                }
                let pb = sb.map_b(&p);
                Some(match std::fs::write(os(&pb), &d) {
                    Err(e) => format!("err {}", io_e(&e)),
                    Ok(()) => match std::fs::read(os(&pb)) {
                        Ok(b) => format!("ok read={}", hex(&b)),
                        Err(e) => format!("ok readerr={}", io_e(&e)),
                    },
                })
            } else {
                None
            };
            finish(sb, res, stdres)
        }
        ["read", p] => {
            let p = match unhex(p) {
                Some(p) => p,
                None => return BAD.to_string(),
            };
            if !sb.guard(&[(&p, Kind::Opens)]) || !sb.enter_a() {
                return BAD.to_string();
            }
            let pz = nul_terminated(&p);
            let res = under_test(|| match tiny_std::fs::read(ustr(&pz)) {
                Ok(b) => format!("ok {}", hex(&b)),
                Err(e) => format!("err {}", tiny_e(&e)),
            });
            let stdres = if sb.twin {
                if !sb.enter_b() {
                    return BAD.to_string();
                }
                Some(match std::fs::read(os(&sb.map_b(&p))) {
                    Ok(b) => format!("ok {}", hex(&b)),
                    Err(e) => format!("err {}", io_e(&e)),
                })
            } else {
                None
            };
            finish(sb, res, stdres)
        }
        ["meta", p] => {
            let p = match unhex(p) {
                Some(p) => p,
                None => return BAD.to_string(),
            };
            if !sb.guard(&[(&p, Kind::Plain)]) || !sb.enter_a() {
                return BAD.to_string();
            }
            let pz = nul_terminated(&p);
            let b01 = |b: bool| if b { '1' } else { '0' };
            let res = under_test(|| {
                let m = match tiny_std::fs::metadata(ustr(&pz)) {
                    Ok(m) => format!(
                        "ok dfl={}{}{} len={}",
                        b01(m.is_dir()),
                        b01(m.is_file()),
                        b01(m.is_symlink()),
                        if m.is_file() { m.len().to_string() } else { "-".to_string() }
                    ),
                    Err(e) => format!("err {}", tiny_e(&e)),
                };
                let ex = match tiny_std::fs::exists(ustr(&pz)) {
                    Ok(b) => b01(b).to_string(),
                    Err(e) => format!("err:{}", tiny_e(&e)),
                };
                format!("{} ex={}", m, ex)
            });
            let stdres = if sb.twin {
                if !sb.enter_b() {
                    return BAD.to_string();
                }
                let pb = sb.map_b(&p);
                let m = match std::fs::metadata(os(&pb)) {
                    Ok(m) => format!(
                        "ok dfl={}{}{} len={}",
                        b01(m.is_dir()),
                        b01(m.is_file()),
                        b01(m.file_type().is_symlink()),
                        if m.is_file() { m.len().to_string() } else { "-".to_string() }
                    ),
                    Err(e) => format!("err {}", io_e(&e)),
                };
                let ex = match Path::new(os(&pb)).try_exists() {
                    Ok(b) => b01(b).to_string(),
                    Err(e) => format!("err:{}", io_e(&e)),
                };
                Some(format!("{} ex={}", m, ex))
            } else {
                None
            };
            finish(sb, res, stdres)
        }
        ["copy", s, d] | ["copy", s, d, _] => {
            let (s, d) = match (unhex(s), unhex(d)) {
                (Some(s), Some(d)) => (s, d),
                _ => return BAD.to_string(),
            };
            let script = match w.get(3) {
                Some(t) => match parse_script(t) {
                    Some(s) => Some(s),
                    None => return BAD.to_string(),
                },
                None => None,
            };
            if !sb.guard(&[(&s, Kind::Opens), (&d, Kind::Opens)]) || !sb.enter_a() {
                return BAD.to_string();
            }
            let (sz, dz) = (nul_terminated(&s), nul_terminated(&d));
            let res = under_test(|| {
                if let Some(sc_) = script {
                    install_script(sc::nr::COPY_FILE_RANGE, 4, sc_);
                }
                // the copy goes through a fresh handle (`copy_file`) or through a caller-held handle that has already been
                // read from (File::open, read k bytes, File::copy): the destination must equal the WHOLE source either way
                static VARIANT: std::sync::atomic::AtomicUsize = std::sync::atomic::AtomicUsize::new(0);
                let v = VARIANT.fetch_add(1, std::sync::atomic::Ordering::Relaxed) % 4;
                let r = if v == 0 {
                    tiny_std::fs::copy_file(ustr(&sz), ustr(&dz))
                } else {
                    match tiny_std::fs::File::open(ustr(&sz)) {
                        Ok(mut f) => {
                            use tiny_std::io::Read;
                            let mut tmp = [0u8; 4096];
                            let want = [0usize, 1, 7, 4096][v];
                            if want > 0 {
                                let _ = f.read(&mut tmp[..want]);
                            }
                            if v == 3 {
                                // drain the handle completely
                                while let Ok(k) = f.read(&mut tmp) {
                                    if k == 0 {
                                        break;
                                    }
                                }
                            }
                            f.copy(ustr(&dz))
                        }
                        Err(e) => Err(e),
                    }
                };
                sc::shim::clear_handler();
                match r {
                    Ok(f) => {
                        drop(f);
                        "ok".to_string()
                    }
                    Err(e) => format!("err {}", tiny_e(&e)),
                }
            });
            let stdres = if sb.twin {
                if !sb.enter_b() {
                    return BAD.to_string();
                }
                Some(std_unit(std::fs::copy(os(&sb.map_b(&s)), os(&sb.map_b(&d))).map(|_| ())))
            } else {
                None
            };
            finish(sb, res, stdres)
        }
        ["mkdirall", p] | ["rmall", p] => {
            let rm = w[0] == "rmall";
            let p = match unhex(p) {
                Some(p) => p,
                None => return BAD.to_string(),
            };
            let kind = if rm { Kind::Rm } else { Kind::Plain };
            if !sb.guard(&[(&p, kind)]) || !sb.enter_a() {
                return BAD.to_string();
            }
            let pz = nul_terminated(&p);
            let res = under_test(|| {
                tiny_unit(if rm {
                    tiny_std::fs::remove_dir_all(ustr(&pz))
                } else {
                    tiny_std::fs::create_dir_all(ustr(&pz))
                })
            });
            let stdres = if sb.twin {
                if !sb.enter_b() {
                    return BAD.to_string();
                }
                let pb = sb.map_b(&p);
                Some(std_unit(if rm {
                    std::fs::remove_dir_all(os(&pb))
                } else {
                    std::fs::create_dir_all(os(&pb))
                }))
            } else {
                None
            };
            finish(sb, res, stdres)
        }
        ["readdir", p] | ["readdir", p, _] | ["readdirs", p] | ["readdirs", p, _, _] => {
            let p = match unhex(p) {
                Some(p) => p,
                None => return BAD.to_string(),
            };
            let expect = w.get(2).copied();
            // `readdirs <path> <recs> <split>`: the getdents64 answers are scripted; without recs/split = `readdir`
            let split = match w.get(3) {
                Some(t) => match parse_split(t) {
                    Some(s) => Some(s),
                    None => return BAD.to_string(),
                },
                None => None,
            };
            if !sb.guard(&[(&p, Kind::Opens)]) || !sb.enter_a() {
                return BAD.to_string();
            }
            let pz = nul_terminated(&p);
            let res = match catch_unwind(AssertUnwindSafe(|| readdir_tiny(&pz, expect, split))) {
                Ok(s) => s,
                Err(_) => {
                    sc::shim::reset();
                    "panic".to_string()
                }
            };
            let stdres = if sb.twin {
                if !sb.enter_b() {
                    return BAD.to_string();
                }
                Some(readdir_std(&sb.map_b(&p)))
            } else {
                None
            };
            finish(sb, res, stdres)
        }
        ["opts", bits] => {
            let b = bits.as_bytes();
            if b.len() != 6 || !b.iter().all(|c| *c == b'0' || *c == b'1') {
                return BAD.to_string();
            }
            let on = |i: usize| b[i] == b'1';
            // the probe is only ever applied to A
            if !guard_one(&sb.a, &sb.a_canon, PROBE, Kind::Opens) || !sb.enter_a() {
                return BAD.to_string();
            }
            let pz = nul_terminated(PROBE);
            let res = under_test(|| {
                let mut o = OpenOptions::new();
                o.read(on(0)).write(on(1)).append(on(2)).truncate(on(3)).create(on(4)).create_new(on(5));
                sc::shim::start_log();
                let f = o.open(ustr(&pz));
                let log = sc::shim::take_log();
                drop(f);
                for r in &log {
                    if r.nr == sc::nr::OPENAT {
                        return format!("flags {}", r.args[2]);
                    }
                    if r.nr == sc::nr::OPEN {
                        return format!("flags {}", r.args[1]);
                    }
                }
                "badopts".to_string()
            });
            let mut probe = sb.a.clone();
            probe.push(b'/');
            probe.extend_from_slice(PROBE);
            if let Ok(md) = std::fs::symlink_metadata(os(&probe)) {
                if !md.is_dir() {
                    let _ = std::fs::remove_file(os(&probe));
                }
            }
            res
        }
        _ => BAD.to_string(),
    }
}

fn serve(twin: bool) {
    let stdin = std::io::stdin();
    let mut inp = stdin.lock();
    let stdout = std::io::stdout();
    let mut out = std::io::BufWriter::new(stdout.lock());
    let mut sb: Option<Sb> = None;
    let mut raw: Vec<u8> = Vec::new();
    loop {
        raw.clear();
        match inp.read_until(b'\n', &mut raw) {
            Ok(0) | Err(_) => break,
            Ok(_) => {}
        }
        while matches!(raw.last(), Some(b'\n') | Some(b'\r')) {
            raw.pop();
        }
        let res = match std::str::from_utf8(&raw) {
            Err(_) => "bad-op".to_string(),
            Ok(line) => {
                let w: Vec<&str> = line.split(' ').collect();
                match w.as_slice() {
                    ["init", p] => {
                        if let Some(old) = sb.take() {
                            cleanup(&old);
                        }
                        match unhex(p).and_then(|p| catch_unwind(|| do_init(p, twin)).ok().flatten()) {
                            Some(s) => {
                                sb = Some(s);
                                "ok".to_string()
                            }
                            None => "bad-op".to_string(),
                        }
                    }
                    ["end"] => {
                        if let Some(old) = sb.take() {
                            cleanup(&old);
                        }
                        "ok".to_string()
                    }
                    _ => match &sb {
                        None => "bad-op".to_string(),
                        Some(s) => {
                            let r = catch_unwind(AssertUnwindSafe(|| handle(s, &w)));
                            sc::shim::reset();
                            let _ = std::env::set_current_dir("/");
                            match r {
                                Ok(x) => x,
                                Err(_) => "panic".to_string(),
                            }
                        }
                    },
                }
            }
        };
        if writeln!(out, "{}", res).is_err() || out.flush().is_err() {
            break;
        }
    }
    if let Some(old) = sb.take() {
        cleanup(&old);
    }
    let _ = out.flush();
}

fn main() {
    std::panic::set_hook(Box::new(|_| {}));
    let mut twin = false;
    for a in std::env::args().skip(1) {
        if a == "--twin" {
            twin = true;
        } else {
            eprintln!("usage: c14 [--twin]");
            std::process::exit(2);
        }
    }
    // deep trees recurse (tiny-std's remove_all, the dump): give the worker a large stack.  The
    // sc-shim state is per thread, everything runs on this one thread.
    let t = std::thread::Builder::new().stack_size(1 << 29).spawn(move || serve(twin)).expect("spawn");
    let _ = t.join();
}
