//! C16 correspondence / observation harness.  One operation per stdin line, one result line per operation.
//!
//! Model-tied operations (the Lean driver `drv_c16` answers the same lines):
//!   wrap <kind> <timeout|none> <k<n>|e<errno>>…   tiny-std's socket wrappers over a FULLY SCRIPTED kernel (sc-shim)
//!   inet a.b.c.d port                              byte image of SocketAddressInet::new + ipv4_addr round trip
//!   unix <hexpath>                                 image / addr_len / error of SocketAddressUnix::try_from_unix
//!   csend <variant> <fd,fd,…|->                    control buffer built by create_send / update_control
//!   cmsgiter <guard|tail> <controllen> <heximage>  the real ControlMessageIterator over a crafted receive buffer
//!   cmsgraw <controllen> <heximage>                the real ControlMessageIterator over ARBITRARY bytes ending at a PROT_NONE page
//!   kfill <len> <n>                                real sendmsg/recvmsg of n descriptors into a len-byte control buffer
//! Observations of kernel behaviour (judged by checks/c16.py, no model line):
//!   stream, timedaccept, timedread, timedfrom, tryidle, blockaccept, blockread, connrefused
#![allow(dead_code, unused_imports, clippy::all)]
use std::cell::RefCell;
use std::io::{BufRead, Write};
use std::os::unix::fs::MetadataExt;
use std::os::unix::io::{AsRawFd as StdAsRawFd, FromRawFd, IntoRawFd};
use std::rc::Rc;
use std::time::{Duration, Instant};

use rusl::platform::{ControlMessageSend, IoSlice, IoSliceMut, MsgHdr, MsgHdrBorrow, NonNegativeI32};
use rusl::string::unix_str::UnixStr;
use tiny_std::io::{Read, Write as TWrite};
use tiny_std::net::{Ip, SocketAddress, TcpListener, TcpStream, TcpTryConnect, UnixListener, UnixStream};
use tiny_std::unix::fd::AsRawFd;

mod sys {
    extern "C" {
        pub fn fork() -> i32;
        pub fn _exit(c: i32) -> !;
        pub fn waitpid(pid: i32, st: *mut i32, opt: i32) -> i32;
        pub fn mmap(a: *mut u8, l: usize, p: i32, f: i32, fd: i32, o: i64) -> *mut u8;
        pub fn mprotect(a: *mut u8, l: usize, p: i32) -> i32;
        pub fn munmap(a: *mut u8, l: usize) -> i32;
        pub fn pipe(fds: *mut i32) -> i32;
        pub fn read(fd: i32, b: *mut u8, n: usize) -> isize;
        pub fn write(fd: i32, b: *const u8, n: usize) -> isize;
        pub fn close(fd: i32) -> i32;
        pub fn alarm(s: u32) -> u32;
        pub fn socketpair(d: i32, t: i32, p: i32, sv: *mut i32) -> i32;
        pub fn fcntl(fd: i32, cmd: i32, ...) -> i32;
    }
}

fn unhex(s: &str) -> Option<Vec<u8>> {
    if s == "-" {
        return Some(vec![]);
    }
    if s.len() % 2 != 0 {
        return None;
    }
    (0..s.len() / 2).map(|i| u8::from_str_radix(&s[2 * i..2 * i + 2], 16).ok()).collect()
}
fn hex(b: &[u8]) -> String {
    if b.is_empty() {
        return "-".into();
    }
    b.iter().map(|x| format!("{:02x}", x)).collect()
}

/// run `f` in a forked child; its returned string comes back through a pipe ("signal N" if it died)
fn in_child<F: FnOnce() -> String>(f: F) -> String {
    in_child_for(20, f)
}

/// same, with a watchdog of `secs` seconds (a hang ends as "signal 14")
fn in_child_for<F: FnOnce() -> String>(secs: u32, f: F) -> String {
    unsafe {
        let mut p = [0i32; 2];
        sys::pipe(p.as_mut_ptr());
        let pid = sys::fork();
        if pid == 0 {
            sys::close(p[0]);
            sys::alarm(secs);
            let s = match std::panic::catch_unwind(std::panic::AssertUnwindSafe(f)) {
                Ok(s) => s,
                Err(_) => "panic".to_string(),
            };
            sys::write(p[1], s.as_ptr(), s.len());
            sys::_exit(0);
        }
        sys::close(p[1]);
        let mut out = Vec::new();
        let mut b = [0u8; 4096];
        loop {
            let n = sys::read(p[0], b.as_mut_ptr(), b.len());
            if n <= 0 {
                break;
            }
            out.extend_from_slice(&b[..n as usize]);
        }
        sys::close(p[0]);
        let mut st = 0i32;
        sys::waitpid(pid, &mut st, 0);
        if st & 0x7f != 0 {
            return format!("signal {}", st & 0x7f);
        }
        String::from_utf8_lossy(&out).to_string()
    }
}

// ------------------------------------------------------------------------------------------------
// 1. wrappers over a fully scripted kernel

const FAKE: usize = 777;
const NONBLOCK_CLOEXEC: usize = 0x80800;

#[derive(PartialEq, Clone, Copy)]
enum Ph {
    Setup,
    Run,
    Cleanup,
}

struct Sc {
    ph: Ph,
    setup: Vec<usize>,
    si: usize,
    script: Vec<usize>,
    i: usize,
    exhausted: bool,
    log: Vec<String>,
    bad: Vec<String>,
    /// Setup serves exactly this many calls and then flips to Run (0 = stay in Setup until told)
    auto_run_after: usize,
}

fn install(sc: &Rc<RefCell<Sc>>) {
    let st = sc.clone();
    sc::shim::set_handler(Box::new(move |n, a, _| {
        let ph = st.borrow().ph;
        match ph {
            Ph::Setup => {
                let mut s = st.borrow_mut();
                if n == sc::nr::SOCKET && a[1] & NONBLOCK_CLOEXEC != NONBLOCK_CLOEXEC {
                    s.bad.push("socket-without-nonblock".into());
                }
                let r = if s.si < s.setup.len() { s.setup[s.si] } else { 0 };
                s.si += 1;
                if s.auto_run_after > 0 && s.si == s.auto_run_after {
                    s.ph = Ph::Run;
                }
                Some(r)
            }
            Ph::Cleanup => Some(0),
            Ph::Run => run_phase(&st, n, a),
        }
    }));
}

fn show_err(e: &tiny_std::Error) -> String {
    match e {
        tiny_std::Error::Timeout => "timeout".into(),
        tiny_std::Error::Os { code, .. } => format!("os {}", code.raw()),
        tiny_std::Error::Uncategorized(_) => "badto".into(),
    }
}

fn parse_timeout(s: &str) -> Option<Option<Duration>> {
    if s == "none" {
        return Some(None);
    }
    let (a, b) = s.split_once('.')?;
    let secs: u64 = a.parse().ok()?;
    let nanos: u32 = b.parse().ok()?;
    if nanos >= 1_000_000_000 {
        return None;
    }
    Some(Some(Duration::new(secs, nanos)))
}

fn wrap(kind: &str, to: &str, resp: &[&str]) -> String {
    let timed = matches!(kind, "treadto" | "uacceptto" | "tacceptto" | "tconnectto");
    let known = matches!(
        kind,
        "uread" | "tread" | "treadto" | "uwrite" | "twrite" | "uaccept" | "uacceptto" | "taccept" | "tacceptto" | "uconnect"
            | "tconnect" | "tconnectto" | "tipblock" | "utryaccept" | "ttryaccept" | "utryconnect" | "ttryconnect" | "tiptry"
    );
    let timeout = match parse_timeout(to) {
        Some(t) => t,
        None => return "bad-op".into(),
    };
    if !known || timed != timeout.is_some() {
        return "bad-op".into();
    }
    let mut script = Vec::new();
    for t in resp {
        let v: usize = match t[1..].parse() {
            Ok(v) => v,
            Err(_) => return "bad-op".into(),
        };
        match &t[..1] {
            "k" => script.push(v),
            "e" => script.push(sc::shim::neg_errno(v)),
            _ => return "bad-op".into(),
        }
    }
    let st = Rc::new(RefCell::new(Sc {
        ph: Ph::Setup,
        setup: vec![],
        si: 0,
        script,
        i: 0,
        exhausted: false,
        log: vec![],
        bad: vec![],
        auto_run_after: 0,
    }));
    let go = |p: Ph| st.borrow_mut().ph = p;
    let path = UnixStr::try_from_str("/c16/fake.sock\0").unwrap();
    let addr = SocketAddress::new(Ip::V4([127, 0, 0, 1]), 4242);
    let mut buf = vec![0u8; 65536];
    let wbuf = vec![0x5au8; 65536];
    let einprogress = sc::shim::neg_errno(115);
    install(&st);
    let out: String = (|| {
        match kind {
            "uread" | "uwrite" => {
                st.borrow_mut().setup = vec![FAKE, 0];
                let mut s = match UnixStream::connect(path) {
                    Ok(s) => s,
                    Err(_) => return "setup-failed".to_string(),
                };
                go(Ph::Run);
                let r = if kind == "uread" { s.read(&mut buf) } else { s.write(&wbuf) };
                go(Ph::Cleanup);
                match r {
                    Ok(n) => format!("ok {}", n),
                    Err(e) => show_err(&e),
                }
            }
            "tread" | "treadto" | "twrite" => {
                st.borrow_mut().setup = vec![FAKE, 0];
                let mut s = match TcpStream::connect(&addr) {
                    Ok(s) => s,
                    Err(_) => return "setup-failed".to_string(),
                };
                go(Ph::Run);
                let r = match kind {
                    "tread" => s.read(&mut buf),
                    "treadto" => s.read_with_timeout(&mut buf, timeout.unwrap()),
                    _ => s.write(&wbuf),
                };
                go(Ph::Cleanup);
                match r {
                    Ok(n) => format!("ok {}", n),
                    Err(e) => show_err(&e),
                }
            }
            "uaccept" | "uacceptto" | "utryaccept" => {
                st.borrow_mut().setup = vec![FAKE, 0, 0, 0];
                let mut l = match UnixListener::bind(path) {
                    Ok(l) => l,
                    Err(_) => return "setup-failed".to_string(),
                };
                go(Ph::Run);
                let r = match kind {
                    "uaccept" => l.accept().map(Some),
                    "uacceptto" => l.accept_with_timeout(timeout.unwrap()).map(Some),
                    _ => l.try_accept(),
                };
                go(Ph::Cleanup);
                match r {
                    Ok(Some(s)) => format!("{} {}", if kind == "utryaccept" { "some" } else { "ok" }, s.as_raw_fd()),
                    Ok(None) => "wouldblock".into(),
                    Err(e) => show_err(&e),
                }
            }
            "taccept" | "tacceptto" | "ttryaccept" => {
                st.borrow_mut().setup = vec![FAKE, 0, 0, 0];
                let mut l = match TcpListener::bind(&addr) {
                    Ok(l) => l,
                    Err(_) => return "setup-failed".to_string(),
                };
                go(Ph::Run);
                let r = match kind {
                    "taccept" => l.accept().map(Some),
                    "tacceptto" => l.accept_with_timeout(timeout.unwrap()).map(Some),
                    _ => l.try_accept(),
                };
                go(Ph::Cleanup);
                match r {
                    Ok(Some(s)) => format!("{} {}", if kind == "ttryaccept" { "some" } else { "ok" }, s.as_raw_fd()),
                    Ok(None) => "wouldblock".into(),
                    Err(e) => show_err(&e),
                }
            }
            "uconnect" | "utryconnect" | "tconnect" | "tconnectto" | "ttryconnect" => {
                // the socket() call is the one setup call; everything after it is the measured part
                st.borrow_mut().setup = vec![FAKE];
                st.borrow_mut().auto_run_after = 1;
                let r: Result<Option<usize>, tiny_std::Error> = match kind {
                    "uconnect" => UnixStream::connect(path).map(|s| {
                        core::mem::forget(s);
                        Some(0)
                    }),
                    "utryconnect" => UnixStream::try_connect(path).map(|o| {
                        o.map(|s| {
                            core::mem::forget(s);
                            0
                        })
                    }),
                    "tconnect" => TcpStream::connect(&addr).map(|s| {
                        core::mem::forget(s);
                        Some(0)
                    }),
                    "tconnectto" => TcpStream::connect_with_timeout(&addr, timeout.unwrap()).map(|s| {
                        core::mem::forget(s);
                        Some(0)
                    }),
                    _ => TcpStream::try_connect(&addr).map(|t| match t {
                        TcpTryConnect::Connected(s) => {
                            core::mem::forget(s);
                            Some(0)
                        }
                        TcpTryConnect::InProgress(p) => {
                            core::mem::forget(p);
                            None
                        }
                    }),
                };
                go(Ph::Cleanup);
                let is_try = kind == "utryconnect" || kind == "ttryconnect";
                match r {
                    Ok(Some(v)) => format!("{} {}", if is_try { "some" } else { "ok" }, v),
                    Ok(None) => "wouldblock".into(),
                    Err(e) => show_err(&e),
                }
            }
            "tipblock" | "tiptry" => {
                st.borrow_mut().setup = vec![FAKE, einprogress];
                let tip = match TcpStream::try_connect(&addr) {
                    Ok(TcpTryConnect::InProgress(p)) => p,
                    _ => return "setup-failed".to_string(),
                };
                go(Ph::Run);
                let out = if kind == "tipblock" {
                    match tip.connect_blocking() {
                        Ok(s) => {
                            go(Ph::Cleanup);
                            drop(s);
                            "ok 0".to_string()
                        }
                        Err(e) => show_err(&e),
                    }
                } else {
                    match tip.try_connect() {
                        Ok(TcpTryConnect::Connected(s)) => {
                            go(Ph::Cleanup);
                            drop(s);
                            "some 0".to_string()
                        }
                        Ok(TcpTryConnect::InProgress(p)) => {
                            go(Ph::Cleanup);
                            drop(p);
                            "wouldblock".to_string()
                        }
                        Err(e) => show_err(&e),
                    }
                };
                go(Ph::Cleanup);
                out
            }
            _ => "bad-op".into(),
        }
    })();
    go(Ph::Cleanup);
    sc::shim::clear_handler();
    let s = st.borrow();
    let out = if s.exhausted { "exhausted".to_string() } else { out };
    let log = if s.log.is_empty() { "-".to_string() } else { s.log.join(",") };
    if s.bad.is_empty() {
        format!("{} | {}", out, log)
    } else {
        format!("{} | {} | BAD {}", out, log, s.bad.join(";"))
    }
}

/// the Run-phase behaviour of the scripted kernel (shared with `install`)
fn run_phase(st: &Rc<RefCell<Sc>>, n: usize, a: [usize; 6]) -> Option<usize> {
    let mut s = st.borrow_mut();
    if s.ph == Ph::Cleanup {
        return Some(0);
    }
    if n == sc::nr::CLOSE {
        return Some(0);
    }
    let entry = if n == sc::nr::PPOLL {
        let (fd, ev) = unsafe { (*(a[0] as *const i32), *((a[0] + 4) as *const i16)) };
        let ts = if a[2] == 0 {
            "inf".to_string()
        } else {
            let t = a[2] as *const i64;
            unsafe { format!("{}.{}", *t, *t.add(1)) }
        };
        if fd as usize != FAKE || a[1] != 1 || a[3] != 0 {
            s.bad.push(format!("ppoll-args fd={} nfds={} sigmask={}", fd, a[1], a[3]));
        }
        format!("ppoll:{}:{}", ts, ev)
    } else {
        if a[0] != FAKE {
            s.bad.push(format!("{}-on-fd-{}", sc::shim::name(n), a[0]));
        }
        if n == sc::nr::ACCEPT4 && a[3] != NONBLOCK_CLOEXEC {
            s.bad.push("accept4-without-nonblock".into());
        }
        sc::shim::name(n)
    };
    s.log.push(entry);
    if s.i < s.script.len() {
        let r = s.script[s.i];
        s.i += 1;
        Some(r)
    } else {
        s.exhausted = true;
        Some(sc::shim::neg_errno(14))
    }
}

// ------------------------------------------------------------------------------------------------
// 2. addresses

fn inet(ip: &str, port: &str) -> String {
    let parts: Vec<u8> = match ip.split('.').map(|p| p.parse::<u8>()).collect::<Result<Vec<_>, _>>() {
        Ok(v) if v.len() == 4 => v,
        _ => return "bad-op".into(),
    };
    let port: u16 = match port.parse() {
        Ok(p) => p,
        Err(_) => return "bad-op".into(),
    };
    let a = rusl::platform::SocketAddressInet::new([parts[0], parts[1], parts[2], parts[3]], port);
    assert_eq!(core::mem::size_of_val(&a), 16);
    let img: [u8; 16] = unsafe { core::mem::transmute_copy(&a) };
    // what connect() hands to the kernel
    let cap = Rc::new(RefCell::new((Vec::new(), 0usize)));
    let c2 = cap.clone();
    sc::shim::set_handler(Box::new(move |_n, args, _| {
        let p = args[1] as *const u8;
        let mut c = c2.borrow_mut();
        c.0 = unsafe { core::slice::from_raw_parts(p, args[2].min(128)).to_vec() };
        c.1 = args[2];
        Some(0)
    }));
    let _ = rusl::network::connect_inet(NonNegativeI32::comptime_checked_new(777), &a);
    sc::shim::clear_handler();
    let (ip2, port2) = a.ipv4_addr();
    let c = cap.borrow();
    if c.0 != img {
        return format!("img-mismatch {} {}", hex(&img), hex(&c.0));
    }
    format!("img {} rt {}.{}.{}.{} {}", hex(&img), ip2[0], ip2[1], ip2[2], ip2[3], port2)
}

fn unix(p: &str) -> String {
    let mut bytes = match unhex(p) {
        Some(b) if !b.contains(&0) => b,
        _ => return "bad-op".into(),
    };
    bytes.push(0);
    // a canary region after the string: the constructor must not depend on it
    bytes.extend_from_slice(&[0xEE; 8]);
    let us: &UnixStr = unsafe { UnixStr::from_ptr(bytes.as_ptr()) };
    match rusl::platform::SocketAddressUnix::try_from_unix(us) {
        Err(e) => {
            if e.msg.contains("7-bit") {
                "err eightbit".into()
            } else if e.msg.contains("too long") {
                "err toolong".into()
            } else {
                format!("err other {}", e.msg)
            }
        }
        Ok(arg) => {
            let cap = Rc::new(RefCell::new((Vec::new(), 0usize)));
            let c2 = cap.clone();
            sc::shim::set_handler(Box::new(move |_n, args, _| {
                let p = args[1] as *const u8;
                let mut c = c2.borrow_mut();
                c.0 = unsafe { core::slice::from_raw_parts(p, 110).to_vec() };
                c.1 = args[2];
                Some(0)
            }));
            let _ = rusl::network::connect_unix(NonNegativeI32::comptime_checked_new(777), &arg);
            sc::shim::clear_handler();
            let c = cap.borrow();
            format!("ok {} {}", hex(&c.0), c.1)
        }
    }
}

// ------------------------------------------------------------------------------------------------
// 3. control messages

fn csend(variant: &str, fds: &str) -> String {
    let vals: Vec<i32> = if fds == "-" {
        vec![]
    } else {
        match fds.split(',').map(|x| x.parse::<i32>()).collect::<Result<Vec<_>, _>>() {
            Ok(v) => v,
            Err(_) => return "bad-op".into(),
        }
    };
    let mut nn = Vec::new();
    for v in &vals {
        match NonNegativeI32::try_new(*v) {
            Ok(x) => nn.push(x),
            Err(_) => return "bad-op".into(),
        }
    }
    let payload = *b"x";
    match variant {
        "0" => {
            let io = [IoSlice::new(&payload)];
            let g = MsgHdrBorrow::create_send(None, &io, Some(ControlMessageSend::ScmRights(&nn)));
            // read the msghdr the way the kernel would: through sendmsg's pointer argument
            let cap = Rc::new(RefCell::new((Vec::new(), 0usize)));
            let c2 = cap.clone();
            sc::shim::set_handler(Box::new(move |_n, args, _| {
                let mh = args[1] as *const usize; // struct msghdr: name, namelen, iov, iovlen, control, controllen, flags
                unsafe {
                    let ctl = *mh.add(4) as *const u8;
                    let len = *mh.add(5);
                    let mut c = c2.borrow_mut();
                    c.0 = if ctl.is_null() { vec![] } else { core::slice::from_raw_parts(ctl, len).to_vec() };
                    c.1 = len;
                }
                Some(1)
            }));
            let _ = rusl::network::sendmsg(NonNegativeI32::comptime_checked_new(777), &g, 0);
            sc::shim::clear_handler();
            let c = cap.borrow();
            format!("ctl {} {}", c.1, hex(&c.0))
        }
        "1" | "2" => {
            let mut space = vec![0xAAu8; 16 + 8 * (vals.len() + 2)];
            let mut iov = linux_iovec(&payload);
            unsafe {
                let mh = if variant == "1" {
                    MsgHdr::create_send(
                        &mut iov as *mut _ as *mut _,
                        1,
                        Some(rusl::platform::ControlMessageRaw::ScmRights(nn.as_mut_ptr(), nn.len())),
                        space.as_mut_ptr(),
                    )
                } else {
                    let mut mh = MsgHdr::create_send(&mut iov as *mut _ as *mut _, 1, None, core::ptr::null_mut());
                    mh.update_control(Some(ControlMessageSend::ScmRights(&nn)), space.as_mut_ptr());
                    mh
                };
                let len = mh.msg_controllen;
                let b = core::slice::from_raw_parts(mh.msg_control as *const u8, len).to_vec();
                format!("ctl {} {}", len, hex(&b))
            }
        }
        _ => "bad-op".into(),
    }
}

#[repr(C)]
struct Iovec {
    base: *const u8,
    len: usize,
}
fn linux_iovec(b: &[u8]) -> Iovec {
    Iovec { base: b.as_ptr(), len: b.len() }
}

const PG: usize = 4096;

/// a buffer of `len` bytes whose (8-byte rounded) end abuts a PROT_NONE page; the < 8 bytes of slack are 0xAA
unsafe fn guarded(len: usize) -> *mut u8 {
    let r8 = (len + 7) & !7;
    let npg = (r8 + PG - 1) / PG + 1;
    let base = sys::mmap(core::ptr::null_mut(), (npg + 1) * PG, 3, 0x22, -1, 0);
    assert!(base as isize != -1);
    sys::mprotect(base.add(npg * PG), PG, 0);
    core::ptr::write_bytes(base, 0xAA, npg * PG);
    base.add(npg * PG - r8)
}

fn show_msgs<'a>(hdr: &'a MsgHdrBorrow<'a>) -> (String, Vec<Vec<i32>>) {
    let mut out = String::from("ok");
    let mut all = Vec::new();
    let mut k = 0;
    for m in hdr.control_messages() {
        match m {
            ControlMessageSend::ScmRights(fds) => {
                let n = fds.len();
                let p = fds.as_ptr() as *const i32;
                out.push_str(&format!(" {}:", n));
                if n > 65536 {
                    out.push_str("huge");
                    break;
                }
                let mut v = Vec::new();
                for i in 0..n {
                    let x = unsafe { p.add(i).read_unaligned() };
                    v.push(x);
                    out.push_str(&format!("{}{}", if i > 0 { "," } else { "" }, x));
                }
                all.push(v);
            }
        }
        k += 1;
        if k > 4096 {
            out.push_str(" ...");
            break;
        }
    }
    (out, all)
}

/// the real ControlMessageIterator over a crafted receive buffer
fn cmsg_iter(place: &str, controllen: usize, image: &[u8]) -> String {
    unsafe {
        let start = match place {
            "guard" => {
                let p = guarded(controllen);
                let r8 = (controllen + 7) & !7;
                core::ptr::copy_nonoverlapping(image.as_ptr(), p, r8.min(image.len()));
                p
            }
            "tail" => {
                let npg = (image.len().max(controllen) + PG - 1) / PG + 1;
                let base = sys::mmap(core::ptr::null_mut(), npg * PG, 3, 0x22, -1, 0);
                core::ptr::copy_nonoverlapping(image.as_ptr(), base, image.len());
                base
            }
            _ => return "bad-op".into(),
        };
        let mut space = [0u8; 8];
        let io = &mut [IoSliceMut::new(&mut space)];
        let ctrl = core::slice::from_raw_parts_mut(start, controllen);
        let hdr = MsgHdrBorrow::create_recv(io, Some(ctrl));
        show_msgs(&hdr).0
    }
}

/// the real ControlMessageIterator over ARBITRARY buffer contents: the memory is exactly `image` (a multiple of 8 bytes)
/// with its end against a PROT_NONE page; the control buffer handed to `create_recv` is its first `controllen` bytes.
/// Every slice the iterator yields is read completely, the way a receiver would; `oob` = a yielded slice does not lie
/// inside `[msg_control, msg_control + msg_controllen)` (judged from the slice's own pointer and length).
fn cmsg_raw(controllen: usize, image: &[u8]) -> String {
    unsafe {
        let start = guarded(image.len());
        core::ptr::copy_nonoverlapping(image.as_ptr(), start, image.len());
        let mut space = [0u8; 8];
        let io = &mut [IoSliceMut::new(&mut space)];
        let ctrl = core::slice::from_raw_parts_mut(start, controllen);
        let hdr = MsgHdrBorrow::create_recv(io, Some(ctrl));
        let mut out = String::from("ok");
        let mut oob = false;
        let mut k = 0;
        for m in hdr.control_messages() {
            match m {
                ControlMessageSend::ScmRights(fds) => {
                    let n = fds.len();
                    let p = fds.as_ptr() as *const i32;
                    let off = (p as usize).wrapping_sub(start as usize);
                    if (p as usize) < start as usize || off.saturating_add(n.saturating_mul(4)) > controllen {
                        oob = true;
                    }
                    out.push_str(&format!(" {}:", n));
                    for i in 0..n {
                        let x = core::ptr::read_volatile(p.add(i));
                        out.push_str(&format!("{}{}", if i > 0 { "," } else { "" }, x));
                    }
                }
            }
            k += 1;
            if k > 100000 {
                return "endless".into();
            }
        }
        if oob {
            format!("oob {}", out)
        } else {
            out
        }
    }
}

fn ident(fd: i32) -> (u64, u64) {
    let f = unsafe { std::fs::File::from_raw_fd(fd) };
    let m = f.metadata().map(|m| (m.dev(), m.ino())).unwrap_or((0, 0));
    let _ = f.into_raw_fd();
    m
}

/// real sendmsg / recvmsg of `n` descriptors over a socketpair into a control buffer of `len` bytes (guard page after it)
fn kfill(len: usize, n: usize) -> String {
    unsafe {
        let mut sv = [0i32; 2];
        if sys::socketpair(1, 1 | 0o2000000, 0, sv.as_mut_ptr()) != 0 {
            return "socketpair-failed".into();
        }
        let dir = std::env::temp_dir();
        let mut files = Vec::new();
        for i in 0..n {
            let p = dir.join(format!("c16-{}-{}", std::process::id(), i));
            let f = std::fs::File::create(&p).unwrap();
            let _ = std::fs::remove_file(&p);
            files.push(f);
        }
        let fds: Vec<NonNegativeI32> = files.iter().map(|f| NonNegativeI32::try_new(f.as_raw_fd()).unwrap()).collect();
        let sent_ids: Vec<(u64, u64)> = files.iter().map(|f| ident(f.as_raw_fd())).collect();
        let payload = *b"Hello";
        let io = [IoSlice::new(&payload)];
        let g = MsgHdrBorrow::create_send(None, &io, Some(ControlMessageSend::ScmRights(&fds)));
        let s0 = NonNegativeI32::try_new(sv[0]).unwrap();
        let s1 = NonNegativeI32::try_new(sv[1]).unwrap();
        match rusl::network::sendmsg(s0, &g, 0) {
            Ok(5) => {}
            other => return format!("sendmsg {:?}", other.map_err(|e| e.code)),
        }
        let mut space = [0u8; 64];
        let rio = &mut [IoSliceMut::new(&mut space)];
        let cbuf = guarded(len);
        let ctrl = core::slice::from_raw_parts_mut(cbuf, len);
        let mut hdr = MsgHdrBorrow::create_recv(rio, Some(ctrl));
        match rusl::network::recvmsg(s1, &mut hdr, 0) {
            Ok(5) => {}
            other => return format!("recvmsg {:?}", other.map_err(|e| e.code)),
        }
        // #[repr(C)] struct msghdr: msg_controllen is the 6th word
        let ctl_after = *(core::ptr::addr_of!(hdr) as *const usize).add(5);
        let (_txt, msgs) = show_msgs(&hdr);
        let shape = |m: &Vec<Vec<i32>>| {
            if m.is_empty() { "-".to_string() } else { m.iter().map(|v| v.len().to_string()).collect::<Vec<_>>().join(",") }
        };
        // identity: the i-th received descriptor is a NEW descriptor for the i-th sent file
        let mut ok = true;
        let mut fit = Vec::new();
        let mut idx = 0;
        for m in &msgs {
            let mut c = 0;
            for &fd in m {
                let fresh = fd >= 0 && !files.iter().any(|f| f.as_raw_fd() == fd) && fd != sv[0] && fd != sv[1];
                if idx < n && fresh && ident(fd) == sent_ids[idx] {
                    c += 1;
                } else {
                    ok = false;
                }
                idx += 1;
            }
            fit.push(c.to_string());
        }
        for m in &msgs {
            for &fd in m {
                if fd > 2 && !files.iter().any(|f| f.as_raw_fd() == fd) {
                    sys::close(fd);
                }
            }
        }
        sys::close(sv[0]);
        sys::close(sv[1]);
        format!(
            "ctl={} msgs={} fit={} ids={}",
            ctl_after,
            shape(&msgs),
            if fit.is_empty() { "-".to_string() } else { fit.join(",") },
            if ok { "ok" } else { "bad" }
        )
    }
}

// ------------------------------------------------------------------------------------------------
// 4. observations on real sockets

struct XorShift(u64);
impl XorShift {
    fn next(&mut self) -> u64 {
        let mut x = self.0;
        x ^= x << 13;
        x ^= x >> 7;
        x ^= x << 17;
        self.0 = x;
        x
    }
    fn below(&mut self, n: u64) -> u64 {
        if n == 0 { 0 } else { self.next() % n }
    }
}

fn fnv(b: &[u8]) -> u64 {
    let mut h: u64 = 0xcbf29ce484222325;
    for x in b {
        h ^= *x as u64;
        h = h.wrapping_mul(0x100000001b3);
    }
    h
}

fn payload(size: usize, seed: u64) -> Vec<u8> {
    let mut r = XorShift(seed | 1);
    let mut v = Vec::with_capacity(size + 8);
    while v.len() < size {
        v.extend_from_slice(&r.next().to_le_bytes());
    }
    v.truncate(size);
    v
}

fn count_log(log: &[sc::shim::Rec]) -> (usize, usize) {
    let eagain = sc::shim::neg_errno(11);
    let polls = log.iter().filter(|r| r.nr == sc::nr::PPOLL).count();
    let ea = log.iter().filter(|r| (r.nr == sc::nr::READ || r.nr == sc::nr::WRITE) && r.ret == eagain).count();
    (polls, ea)
}

fn chunk_size(r: &mut XorShift, max: usize) -> usize {
    // small, medium and large requests
    match r.below(4) {
        0 => 1 + r.below(16) as usize,
        1 => 1 + r.below(max.min(4096) as u64) as usize,
        _ => 1 + r.below(max as u64) as usize,
    }
    .min(max.max(1))
}

static SOCK_SEQ: std::sync::atomic::AtomicUsize = std::sync::atomic::AtomicUsize::new(0);

fn sock_path() -> (std::path::PathBuf, Vec<u8>) {
    let n = SOCK_SEQ.fetch_add(1, std::sync::atomic::Ordering::SeqCst);
    let p = std::env::temp_dir().join(format!("c16-{}-{}.sock", std::process::id(), n));
    let _ = std::fs::remove_file(&p);
    let mut b = p.to_str().unwrap().as_bytes().to_vec();
    b.push(0);
    (p, b)
}

enum AnyL {
    U(UnixListener),
    T(TcpListener),
}
enum AnyS {
    U(UnixStream),
    T(TcpStream),
}
impl AnyS {
    fn read(&mut self, b: &mut [u8]) -> tiny_std::Result<usize> {
        match self {
            AnyS::U(s) => s.read(b),
            AnyS::T(s) => s.read(b),
        }
    }
    fn write_all(&mut self, b: &[u8]) -> tiny_std::Result<()> {
        match self {
            AnyS::U(s) => s.write_all(b),
            AnyS::T(s) => s.write_all(b),
        }
    }
}

/// listener + a closure that connects to it
fn listen(fam: &str) -> Option<(AnyL, Box<dyn Fn() -> tiny_std::Result<AnyS> + Send>, Option<std::path::PathBuf>)> {
    match fam {
        "unix" => {
            let (p, b) = sock_path();
            let us: &UnixStr = UnixStr::try_from_bytes(&b).ok()?;
            let l = UnixListener::bind(us).ok()?;
            let b2 = b.clone();
            Some((
                AnyL::U(l),
                Box::new(move || {
                    let us: &UnixStr = UnixStr::try_from_bytes(&b2).unwrap();
                    UnixStream::connect(us).map(AnyS::U)
                }),
                Some(p),
            ))
        }
        "tcp" => {
            let l = TcpListener::bind(&SocketAddress::new(Ip::V4([127, 0, 0, 1]), 0)).ok()?;
            let a = l.local_addr().ok()?;
            Some((AnyL::T(l), Box::new(move || TcpStream::connect(&a).map(AnyS::T)), None))
        }
        _ => None,
    }
}

fn accept(l: &mut AnyL) -> tiny_std::Result<AnyS> {
    match l {
        AnyL::U(l) => l.accept().map(AnyS::U),
        AnyL::T(l) => l.accept().map(AnyS::T),
    }
}

/// stream <unix|tcp> <size> <seed> <wmax> <rmax> <wsleep_us> <rsleep_us> <dir: c2s|s2c>
fn stream(fam: &str, size: usize, seed: u64, wmax: usize, rmax: usize, wsleep: u64, rsleep: u64, dir: &str) -> String {
    let (mut l, connect, path) = match listen(fam) {
        Some(x) => x,
        None => return "listen-failed".into(),
    };
    let data = payload(size, seed);
    let wsum = fnv(&data);
    let data2 = data.clone();
    let writer_is_client = dir == "c2s";
    let wjob = move |mut s: AnyS| -> String {
        sc::shim::start_log();
        let mut r = XorShift(seed ^ 0x9E3779B97F4A7C15);
        let mut pos = 0;
        let mut res = "ok".to_string();
        let mut calls = 0u64;
        while pos < data2.len() {
            let k = chunk_size(&mut r, wmax).min(data2.len() - pos);
            if let Err(e) = s.write_all(&data2[pos..pos + k]) {
                res = format!("werr:{}", show_err(&e).replace(' ', "_"));
                break;
            }
            pos += k;
            calls += 1;
            if wsleep > 0 && calls % 8 == 0 {
                std::thread::sleep(Duration::from_micros(wsleep));
            }
        }
        drop(s); // close: the reader sees EOF
        let (p, e) = count_log(&sc::shim::take_log());
        format!("{} wrote={} wpoll={} weagain={}", res, pos, p, e)
    };
    let rjob = move |mut s: AnyS| -> (String, Vec<u8>) {
        sc::shim::start_log();
        let mut r = XorShift(seed ^ 0xD1B54A32D192ED03);
        let mut got = Vec::with_capacity(size);
        let mut buf = vec![0u8; rmax.max(1)];
        let mut res = "ok".to_string();
        let mut calls = 0u64;
        loop {
            let k = chunk_size(&mut r, rmax);
            match s.read(&mut buf[..k]) {
                Ok(0) => break,
                Ok(n) => {
                    if n > k {
                        res = "read-returned-more-than-asked".into();
                        break;
                    }
                    got.extend_from_slice(&buf[..n]);
                }
                Err(e) => {
                    res = format!("rerr:{}", show_err(&e).replace(' ', "_"));
                    break;
                }
            }
            calls += 1;
            if rsleep > 0 && calls % 8 == 0 {
                std::thread::sleep(Duration::from_micros(rsleep));
            }
            if got.len() > size + 16 {
                break;
            }
        }
        let (p, e) = count_log(&sc::shim::take_log());
        (format!("{} rpoll={} reagain={}", res, p, e), got)
    };
    let (wres, rres, got) = if writer_is_client {
        let h = std::thread::spawn(move || match connect() {
            Ok(s) => wjob(s),
            Err(e) => format!("connect-failed:{}", show_err(&e)),
        });
        let s = match accept(&mut l) {
            Ok(s) => s,
            Err(e) => return format!("accept-failed {}", show_err(&e)),
        };
        let (rr, got) = rjob(s);
        (h.join().unwrap_or("writer-panicked".into()), rr, got)
    } else {
        let h = std::thread::spawn(move || match connect() {
            Ok(s) => rjob(s),
            Err(e) => (format!("connect-failed:{}", show_err(&e)), vec![]),
        });
        let s = match accept(&mut l) {
            Ok(s) => s,
            Err(e) => return format!("accept-failed {}", show_err(&e)),
        };
        let wr = wjob(s);
        let (rr, got) = h.join().unwrap_or(("reader-panicked".into(), vec![]));
        (wr, rr, got)
    };
    if let Some(p) = path {
        let _ = std::fs::remove_file(p);
    }
    let first_diff = data.iter().zip(got.iter()).position(|(a, b)| a != b);
    format!(
        "w[{}] r[{}] size={} rcvd={} eq={} wsum={:016x} rsum={:016x} firstdiff={}",
        wres,
        rres,
        size,
        got.len(),
        (got == data) as u8,
        wsum,
        fnv(&got),
        first_diff.map(|x| x.to_string()).unwrap_or("-".into())
    )
}

fn polls_in<F: FnOnce() -> String>(f: F) -> String {
    sc::shim::start_log();
    let t0 = Instant::now();
    let r = f();
    let el = t0.elapsed().as_nanos();
    let log = sc::shim::take_log();
    let polls = log.iter().filter(|r| r.nr == sc::nr::PPOLL).count();
    let calls = log.iter().filter(|r| r.nr != sc::nr::CLOSE).count();
    format!("{} elapsed={} polls={} calls={}", r, el, polls, calls)
}

fn timed_accept(fam: &str, ms: u64) -> String {
    let (mut l, _c, path) = match listen(fam) {
        Some(x) => x,
        None => return "listen-failed".into(),
    };
    let d = Duration::from_millis(ms);
    let out = polls_in(|| {
        let r = match &mut l {
            AnyL::U(l) => l.accept_with_timeout(d).map(|_| ()),
            AnyL::T(l) => l.accept_with_timeout(d).map(|_| ()),
        };
        match r {
            Ok(()) => "accepted".into(),
            Err(e) => show_err(&e),
        }
    });
    if let Some(p) = path {
        let _ = std::fs::remove_file(p);
    }
    out
}

fn pair(fam: &str) -> Option<(AnyS, AnyS)> {
    let (mut l, c, path) = listen(fam)?;
    let h = std::thread::spawn(move || c().ok());
    let a = accept(&mut l).ok()?;
    let b = h.join().ok()??;
    if let Some(p) = path {
        let _ = std::fs::remove_file(p);
    }
    Some((a, b))
}

fn timed_read(ms: u64) -> String {
    let (a, _b) = match pair("tcp") {
        Some(x) => x,
        None => return "pair-failed".into(),
    };
    let mut a = match a {
        AnyS::T(t) => t,
        _ => return "pair-failed".into(),
    };
    let mut buf = [0u8; 16];
    polls_in(|| match a.read_with_timeout(&mut buf, Duration::from_millis(ms)) {
        Ok(n) => format!("read {}", n),
        Err(e) => show_err(&e),
    })
}

/// timedfrom <unix|tcp> <ctor> <ms>: a stream obtained from the named constructor, the peer connected, open and SILENT.
/// tcp: `read_with_timeout(ms)` bracketed by a monotonic clock; unix (no public time-limited read): the O_NONBLOCK flag the
/// poll-based time limits rest on, and a plain read(2) on the descriptor, which must come back at once with EAGAIN.
fn timed_from(fam: &str, ctor: &str, ms: u64) -> String {
    let big = Duration::from_secs(5);
    let retry_until = Instant::now() + Duration::from_secs(3);
    let (stream, _peer, path): (AnyS, AnyS, Option<std::path::PathBuf>) = match fam {
        "unix" => {
            let (p, b) = sock_path();
            let us: &UnixStr = match UnixStr::try_from_bytes(&b) {
                Ok(u) => u,
                Err(_) => return "setup-failed".into(),
            };
            let mut l = match UnixListener::bind(us) {
                Ok(l) => l,
                Err(_) => return "listen-failed".into(),
            };
            match ctor {
                "accept" | "accept_with_timeout" | "try_accept" => {
                    let peer = match UnixStream::connect(us) {
                        Ok(s) => s,
                        Err(e) => return format!("peer-connect-failed {}", show_err(&e)),
                    };
                    let s = match ctor {
                        "accept" => l.accept(),
                        "accept_with_timeout" => l.accept_with_timeout(big),
                        _ => loop {
                            match l.try_accept() {
                                Ok(Some(s)) => break Ok(s),
                                Ok(None) if Instant::now() < retry_until => std::thread::sleep(Duration::from_millis(1)),
                                Ok(None) => return "try-accept-never-ready".into(),
                                Err(e) => break Err(e),
                            }
                        },
                    };
                    match s {
                        Ok(s) => (AnyS::U(s), AnyS::U(peer), Some(p)),
                        Err(e) => return format!("ctor-failed {}", show_err(&e)),
                    }
                }
                "connect" | "try_connect" => {
                    let s = match ctor {
                        "connect" => UnixStream::connect(us),
                        _ => match UnixStream::try_connect(us) {
                            Ok(Some(s)) => Ok(s),
                            Ok(None) => return "try-connect-would-block".into(),
                            Err(e) => Err(e),
                        },
                    };
                    let s = match s {
                        Ok(s) => s,
                        Err(e) => return format!("ctor-failed {}", show_err(&e)),
                    };
                    match l.accept() {
                        Ok(peer) => (AnyS::U(s), AnyS::U(peer), Some(p)),
                        Err(e) => return format!("peer-accept-failed {}", show_err(&e)),
                    }
                }
                _ => return "bad-op".into(),
            }
        }
        "tcp" => {
            let mut l = match TcpListener::bind(&SocketAddress::new(Ip::V4([127, 0, 0, 1]), 0)) {
                Ok(l) => l,
                Err(_) => return "listen-failed".into(),
            };
            let a = match l.local_addr() {
                Ok(a) => a,
                Err(_) => return "listen-failed".into(),
            };
            match ctor {
                "accept" | "accept_with_timeout" | "try_accept" => {
                    let peer = match TcpStream::connect(&a) {
                        Ok(s) => s,
                        Err(e) => return format!("peer-connect-failed {}", show_err(&e)),
                    };
                    let s = match ctor {
                        "accept" => l.accept(),
                        "accept_with_timeout" => l.accept_with_timeout(big),
                        _ => loop {
                            match l.try_accept() {
                                Ok(Some(s)) => break Ok(s),
                                Ok(None) if Instant::now() < retry_until => std::thread::sleep(Duration::from_millis(1)),
                                Ok(None) => return "try-accept-never-ready".into(),
                                Err(e) => break Err(e),
                            }
                        },
                    };
                    match s {
                        Ok(s) => (AnyS::T(s), AnyS::T(peer), None),
                        Err(e) => return format!("ctor-failed {}", show_err(&e)),
                    }
                }
                "connect" | "connect_with_timeout" | "try_connect" | "connect_blocking" => {
                    let s = match ctor {
                        "connect" => TcpStream::connect(&a),
                        "connect_with_timeout" => TcpStream::connect_with_timeout(&a, big),
                        "connect_blocking" => match TcpStream::try_connect(&a) {
                            Ok(TcpTryConnect::Connected(s)) => Ok(s),
                            Ok(TcpTryConnect::InProgress(p)) => p.connect_blocking(),
                            Err(e) => Err(e),
                        },
                        _ => match TcpStream::try_connect(&a) {
                            Ok(TcpTryConnect::Connected(s)) => Ok(s),
                            Ok(TcpTryConnect::InProgress(mut p)) => loop {
                                match p.try_connect() {
                                    Ok(TcpTryConnect::Connected(s)) => break Ok(s),
                                    Ok(TcpTryConnect::InProgress(q)) if Instant::now() < retry_until => {
                                        p = q;
                                        std::thread::sleep(Duration::from_millis(1));
                                    }
                                    Ok(TcpTryConnect::InProgress(_)) => return "try-connect-never-ready".into(),
                                    Err(e) => break Err(e),
                                }
                            },
                            Err(e) => Err(e),
                        },
                    };
                    let s = match s {
                        Ok(s) => s,
                        Err(e) => return format!("ctor-failed {}", show_err(&e)),
                    };
                    match l.accept() {
                        Ok(peer) => (AnyS::T(s), AnyS::T(peer), None),
                        Err(e) => return format!("peer-accept-failed {}", show_err(&e)),
                    }
                }
                _ => return "bad-op".into(),
            }
        }
        _ => return "bad-op".into(),
    };
    if let Some(p) = path {
        let _ = std::fs::remove_file(p);
    }
    let fd = match &stream {
        AnyS::U(s) => s.as_raw_fd().value(),
        AnyS::T(s) => s.as_raw_fd().value(),
    };
    let fl = unsafe { sys::fcntl(fd, 3) };
    let nonblock = (fl >= 0 && fl & 0o4000 != 0) as u8;
    let mut buf = [0u8; 16];
    let out = match stream {
        AnyS::T(mut t) => polls_in(|| match t.read_with_timeout(&mut buf, Duration::from_millis(ms)) {
            Ok(n) => format!("read {}", n),
            Err(e) => show_err(&e),
        }),
        AnyS::U(u) => polls_in(|| {
            let n = unsafe { sys::read(u.as_raw_fd().value(), buf.as_mut_ptr(), buf.len()) };
            if n >= 0 {
                format!("read {}", n)
            } else {
                let e = std::io::Error::last_os_error().raw_os_error().unwrap_or(0);
                if e == 11 {
                    "wouldblock".to_string()
                } else {
                    format!("os {}", e)
                }
            }
        }),
    };
    format!("{} nonblock={}", out, nonblock)
}

fn try_idle(fam: &str) -> String {
    let (mut l, _c, path) = match listen(fam) {
        Some(x) => x,
        None => return "listen-failed".into(),
    };
    let out = polls_in(|| {
        let r = match &mut l {
            AnyL::U(l) => l.try_accept().map(|o| o.is_some()),
            AnyL::T(l) => l.try_accept().map(|o| o.is_some()),
        };
        match r {
            Ok(true) => "some".into(),
            Ok(false) => "none".into(),
            Err(e) => show_err(&e),
        }
    });
    if let Some(p) = path {
        let _ = std::fs::remove_file(p);
    }
    out
}

fn block_accept(fam: &str, delay_ms: u64) -> String {
    let (mut l, c, path) = match listen(fam) {
        Some(x) => x,
        None => return "listen-failed".into(),
    };
    let h = std::thread::spawn(move || {
        std::thread::sleep(Duration::from_millis(delay_ms));
        match c() {
            Ok(mut s) => s.write_all(b"ping").is_ok(),
            Err(_) => false,
        }
    });
    let out = polls_in(|| match accept(&mut l) {
        Ok(mut s) => {
            let mut b = [0u8; 4];
            let mut n = 0;
            while n < 4 {
                match s.read(&mut b[n..]) {
                    Ok(0) => break,
                    Ok(k) => n += k,
                    Err(e) => return format!("read-{}", show_err(&e).replace(' ', "_")),
                }
            }
            format!("accepted {}", hex(&b[..n]))
        }
        Err(e) => show_err(&e),
    });
    let _ = h.join();
    if let Some(p) = path {
        let _ = std::fs::remove_file(p);
    }
    out
}

fn block_read(fam: &str, delay_ms: u64) -> String {
    let (mut a, mut b) = match pair(fam) {
        Some(x) => x,
        None => return "pair-failed".into(),
    };
    let h = std::thread::spawn(move || {
        std::thread::sleep(Duration::from_millis(delay_ms));
        let ok = b.write_all(b"pong").is_ok();
        std::thread::sleep(Duration::from_millis(20));
        ok
    });
    let out = polls_in(|| {
        let mut buf = [0u8; 64];
        match a.read(&mut buf) {
            Ok(n) => format!("read {}", hex(&buf[..n])),
            Err(e) => show_err(&e),
        }
    });
    let _ = h.join();
    out
}

fn conn_refused() -> String {
    // a port that was just bound and released: nothing listens there
    let port = {
        let l = std::net::TcpListener::bind("127.0.0.1:0").unwrap();
        l.local_addr().unwrap().port()
    };
    polls_in(|| match TcpStream::connect(&SocketAddress::new(Ip::V4([127, 0, 0, 1]), port)) {
        Ok(_) => "connected".into(),
        Err(e) => show_err(&e),
    })
}

fn main() {
    std::panic::set_hook(Box::new(|_| {}));
    let stdin = std::io::stdin();
    let stdout = std::io::stdout();
    let mut out = std::io::BufWriter::new(stdout.lock());
    for line in stdin.lock().lines() {
        let line = line.unwrap();
        let w: Vec<&str> = line.split_whitespace().collect();
        let res = match w.as_slice() {
            ["wrap", kind, to, resp @ ..] => {
                let (kind, to) = (kind.to_string(), to.to_string());
                let resp: Vec<String> = resp.iter().map(|s| s.to_string()).collect();
                if resp.iter().any(|t| t.len() < 2) {
                    "bad-op".to_string()
                } else {
                    match std::panic::catch_unwind(move || {
                        let r: Vec<&str> = resp.iter().map(|s| s.as_str()).collect();
                        wrap(&kind, &to, &r)
                    }) {
                        Ok(s) => s,
                        Err(_) => {
                            sc::shim::reset();
                            "panic".to_string()
                        }
                    }
                }
            }
            ["inet", ip, port] => inet(ip, port),
            ["unix", p] => {
                let p = p.to_string();
                match std::panic::catch_unwind(move || unix(&p)) {
                    Ok(s) => s,
                    Err(_) => {
                        sc::shim::reset();
                        "panic".to_string()
                    }
                }
            }
            ["csend", v, fds] => csend(v, fds),
            ["cmsgiter", place, cl, img] => match (cl.parse::<usize>(), unhex(img)) {
                (Ok(cl), Some(img)) if (*place == "tail" || *place == "guard") && (*place == "tail" || img.len() >= cl) => {
                    let place = place.to_string();
                    out.flush().unwrap();
                    in_child(move || cmsg_iter(&place, cl, &img))
                }
                _ => "bad-op".to_string(),
            },
            ["cmsgraw", cl, img] => match (cl.parse::<usize>(), unhex(img)) {
                (Ok(cl), Some(img)) if img.len() >= cl && img.len() % 8 == 0 && !img.is_empty() => {
                    out.flush().unwrap();
                    in_child(move || cmsg_raw(cl, &img))
                }
                _ => "bad-op".to_string(),
            },
            ["kfill", len, n] => match (len.parse::<usize>(), n.parse::<usize>()) {
                (Ok(len), Ok(n)) if n <= 253 => {
                    out.flush().unwrap();
                    in_child(move || kfill(len, n))
                }
                _ => "bad-op".to_string(),
            },
            ["stream", fam, size, seed, wmax, rmax, ws, rs, dir] => {
                match (size.parse(), seed.parse(), wmax.parse(), rmax.parse(), ws.parse(), rs.parse()) {
                    (Ok(size), Ok(seed), Ok(wmax), Ok(rmax), Ok(ws), Ok(rs)) if *dir == "c2s" || *dir == "s2c" => {
                        out.flush().unwrap();
                        let (fam, dir) = (fam.to_string(), dir.to_string());
                        in_child_for(40, move || stream(&fam, size, seed, wmax, rmax, ws, rs, &dir))
                    }
                    _ => "bad-op".to_string(),
                }
            }
            ["timedaccept", fam, ms] => {
                out.flush().unwrap();
                let fam = fam.to_string();
                let fam = fam.as_str();
                ms.parse().map(|ms| in_child_for(60, move || timed_accept(fam, ms))).unwrap_or("bad-op".into())
            }
            ["timedread", ms] => {
                out.flush().unwrap();
                ms.parse().map(|ms| in_child_for(60, move || timed_read(ms))).unwrap_or("bad-op".into())
            }
            ["timedfrom", fam, ctor, ms] => {
                out.flush().unwrap();
                let (fam, ctor) = (fam.to_string(), ctor.to_string());
                ms.parse().map(|ms| in_child_for(8, move || timed_from(&fam, &ctor, ms))).unwrap_or("bad-op".into())
            }
            ["tryidle", fam] => {
                out.flush().unwrap();
                let fam = fam.to_string();
                in_child_for(60, move || try_idle(&fam))
            }
            ["blockaccept", fam, ms] => {
                out.flush().unwrap();
                let fam = fam.to_string();
                let fam = fam.as_str();
                ms.parse().map(|ms| in_child_for(60, move || block_accept(fam, ms))).unwrap_or("bad-op".into())
            }
            ["blockread", fam, ms] => {
                out.flush().unwrap();
                let fam = fam.to_string();
                let fam = fam.as_str();
                ms.parse().map(|ms| in_child_for(60, move || block_read(fam, ms))).unwrap_or("bad-op".into())
            }
            ["connrefused"] => {
                out.flush().unwrap();
                in_child_for(60, conn_refused)
            }
            _ => "bad-op".to_string(),
        };
        writeln!(out, "{}", res).unwrap();
    }
}
