//! 64-byte images of the real SQE constructors.
use core::mem::transmute;
use rusl::platform::*;
use rusl::string::unix_str::UnixStr;

fn fd(v: i128) -> Option<Fd> {
    i32::try_from(v).ok().and_then(|x| Fd::try_new(x).ok())
}
fn optfd(v: i128) -> Option<Option<Fd>> {
    if v == -1 { Some(None) } else { fd(v).map(Some) }
}
fn u(v: i128, bits: u32) -> Option<u64> {
    if v >= 0 && v < (1i128 << bits) { Some(v as u64) } else { None }
}
/// a pointer operand: non-null, 8-aligned (references are fabricated from it, never dereferenced)
fn ptr(v: i128) -> Option<usize> {
    match u(v, 64) { Some(p) if p != 0 && p % 8 == 0 => Some(p as usize), _ => None }
}
unsafe fn ustr<'a>(p: usize) -> &'a UnixStr {
    UnixStr::from_bytes_unchecked(core::slice::from_raw_parts(p as *const u8, 1))
}
fn nni32(v: i128) -> Option<i32> {
    if v >= 0 && v <= i32::MAX as i128 { Some(v as i32) } else { None }
}
fn hex(e: &IoUringSubmissionQueueEntry) -> String {
    let b: [u8; 64] = unsafe { core::ptr::read((e as *const IoUringSubmissionQueueEntry).cast()) };
    let mut s = String::from("img ");
    for x in b { s.push_str(&format!("{:02x}", x)); }
    s
}

pub fn image(name: &str, a: &[i128]) -> Option<String> {
    // poison the stack region the constructor's temporaries are likely to land in, so that bytes a
    // constructor leaves undefined show up as 0xAA rather than as a lucky zero
    poison();
    let e = unsafe {
        match (name, a) {
            ("new_readv", [f, p, n, ud, fl]) => IoUringSubmissionQueueEntry::new_readv(
                fd(*f)?, u(*p, 64)? as usize, u(*n, 32)? as u32, u(*ud, 64)?, transmute::<u8, IoUringSQEFlags>(u(*fl, 8)? as u8)),
            ("new_readv_fixed", [f, bi, ad, n, ud, fl]) => IoUringSubmissionQueueEntry::new_readv_fixed(
                fd(*f)?, u(*bi, 16)? as u16, u(*ad, 64)?, u(*n, 32)? as u32, u(*ud, 64)?, transmute::<u8, IoUringSQEFlags>(u(*fl, 8)? as u8)),
            ("new_writev", [f, p, n, ud, fl]) => IoUringSubmissionQueueEntry::new_writev(
                fd(*f)?, u(*p, 64)? as usize, u(*n, 32)? as u32, u(*ud, 64)?, transmute::<u8, IoUringSQEFlags>(u(*fl, 8)? as u8)),
            ("new_writev_fixed", [f, bi, ad, n, ud, fl]) => IoUringSubmissionQueueEntry::new_writev_fixed(
                fd(*f)?, u(*bi, 16)? as u16, u(*ad, 64)?, u(*n, 32)? as u32, u(*ud, 64)?, transmute::<u8, IoUringSQEFlags>(u(*fl, 8)? as u8)),
            ("new_openat", [d, p, of, m, ud, fl]) => IoUringSubmissionQueueEntry::new_openat(
                optfd(*d)?, ustr(ptr(*p)?), transmute::<i32, OpenFlags>(nni32(*of)?), transmute::<u32, Mode>(u(*m, 32)? as u32),
                u(*ud, 64)?, transmute::<u8, IoUringSQEFlags>(u(*fl, 8)? as u8)),
            ("new_close", [f, ud, fl]) => IoUringSubmissionQueueEntry::new_close(
                fd(*f)?, u(*ud, 64)?, transmute::<u8, IoUringSQEFlags>(u(*fl, 8)? as u8)),
            ("new_statx", [d, p, sf, m, sp, ud, fl]) => IoUringSubmissionQueueEntry::new_statx(
                optfd(*d)?, ustr(ptr(*p)?), transmute::<i32, StatxFlags>(nni32(*sf)?), transmute::<u32, StatxMask>(u(*m, 32)? as u32),
                u(*sp, 64)? as usize as *mut Statx, u(*ud, 64)?, transmute::<u8, IoUringSQEFlags>(u(*fl, 8)? as u8)),
            ("new_unlink_at", [d, p, rm, ud, fl]) => IoUringSubmissionQueueEntry::new_unlink_at(
                optfd(*d)?, ustr(ptr(*p)?), u(*rm, 1)? != 0, u(*ud, 64)?, transmute::<u8, IoUringSQEFlags>(u(*fl, 8)? as u8)),
            ("new_rename_at", [od, nd, op, np, rf, ud, fl]) => IoUringSubmissionQueueEntry::new_rename_at(
                optfd(*od)?, optfd(*nd)?, ustr(ptr(*op)?), ustr(ptr(*np)?), transmute::<u32, RenameFlags>(u(*rf, 32)? as u32),
                u(*ud, 64)?, transmute::<u8, IoUringSQEFlags>(u(*fl, 8)? as u8)),
            ("new_mkdirat", [d, p, m, ud, fl]) => IoUringSubmissionQueueEntry::new_mkdirat(
                optfd(*d)?, ustr(ptr(*p)?), transmute::<u32, Mode>(u(*m, 32)? as u32), u(*ud, 64)?,
                transmute::<u8, IoUringSQEFlags>(u(*fl, 8)? as u8)),
            ("new_socket", [dom, so, pr, ud, fl]) => IoUringSubmissionQueueEntry::new_socket(
                transmute::<u16, AddressFamily>(u(*dom, 16)? as u16), transmute::<u32, SocketOptions>(u(*so, 32)? as u32),
                u(*pr, 32)? as u32, u(*ud, 64)?, transmute::<u8, IoUringSQEFlags>(u(*fl, 8)? as u8)),
            ("new_accept_unix", [s, sa, al, sf, ud, fl]) => IoUringSubmissionQueueEntry::new_accept_unix(
                fd(*s)?, u(*sa, 64)? as usize as *mut SocketAddressUnix, u(*al, 64)? as usize as *mut u64,
                transmute::<u32, SocketFlags>(u(*sf, 32)? as u32), u(*ud, 64)?, transmute::<u8, IoUringSQEFlags>(u(*fl, 8)? as u8)),
            ("new_accept_inet", [s, sa, al, sf, ud, fl]) => IoUringSubmissionQueueEntry::new_accept_inet(
                fd(*s)?, u(*sa, 64)? as usize as *mut SocketAddressInet, u(*al, 64)? as usize as *mut u64,
                transmute::<u32, SocketFlags>(u(*sf, 32)? as u32), u(*ud, 64)?, transmute::<u8, IoUringSQEFlags>(u(*fl, 8)? as u8)),
            ("new_timeout", [ts, rel, aw, ud, fl]) => IoUringSubmissionQueueEntry::new_timeout(
                &*(ptr(*ts)? as *const TimeSpec), u(*rel, 1)? != 0, if *aw == -1 { None } else { Some(u(*aw, 64)?) },
                u(*ud, 64)?, transmute::<u8, IoUringSQEFlags>(u(*fl, 8)? as u8)),
            ("new_sendmsg_raw", [s, m, mf, ud, fl]) => IoUringSubmissionQueueEntry::new_sendmsg_raw(
                fd(*s)?, u(*m, 64)? as usize as *const MsgHdr, i32::try_from(*mf).ok()?, u(*ud, 64)?,
                transmute::<u8, IoUringSQEFlags>(u(*fl, 8)? as u8)),
            ("new_recvmsg", [s, m, mf, ud, fl]) => IoUringSubmissionQueueEntry::new_recvmsg(
                fd(*s)?, u(*m, 64)? as usize as *mut MsgHdr, i32::try_from(*mf).ok()?, u(*ud, 64)?,
                transmute::<u8, IoUringSQEFlags>(u(*fl, 8)? as u8)),
            ("new_poll_add", [f, pe, pf, ud, fl]) => IoUringSubmissionQueueEntry::new_poll_add(
                fd(*f)?, transmute::<i16, PollEvents>(i16::try_from(*pe).ok()?), transmute::<u32, PollAddMultiFlags>(u(*pf, 32)? as u32),
                u(*ud, 64)?, transmute::<u8, IoUringSQEFlags>(u(*fl, 8)? as u8)),
            // operands: socket, (the SocketArgUnix is built here from a path of `plen` bytes 'a'), user_data, flags;
            // the image's pointer operand is canonicalised to 0xA11CE0 when it is the address the direct
            // connect_unix syscall passes, and the line reports the addr_len the direct syscall passes
            ("new_connect_unix", [s, plen, ud, fl]) => {
                let n = u(*plen, 7)? as usize;
                if n == 0 || n > 100 { return None; }
                let mut path = vec![b'a'; n];
                path.push(0);
                let arg = SocketAddressUnix::try_from_unix(UnixStr::from_bytes_unchecked(&path)).ok()?;
                let seen = std::rc::Rc::new(std::cell::Cell::new((0usize, 0usize)));
                let seen2 = seen.clone();
                sc::shim::set_handler(Box::new(move |nr, a, _| {
                    if nr == sc::nr::CONNECT { seen2.set((a[1], a[2])); Some(0) } else { None }
                }));
                let _ = rusl::network::connect_unix(fd(*s)?, &arg);
                sc::shim::clear_handler();
                let (dptr, dlen) = seen.get();
                let e = IoUringSubmissionQueueEntry::new_connect_unix(
                    fd(*s)?, &arg, u(*ud, 64)?, transmute::<u8, IoUringSQEFlags>(u(*fl, 8)? as u8));
                let mut b: [u8; 64] = core::ptr::read((&e as *const IoUringSubmissionQueueEntry).cast());
                let addr = u64::from_le_bytes(b[16..24].try_into().unwrap());
                if addr == dptr as u64 { b[16..24].copy_from_slice(&0xA11CE0u64.to_le_bytes()); }
                // `off` must not depend on where `arg` lives: a pointer into `arg` is canonicalised too
                let off = u64::from_le_bytes(b[8..16].try_into().unwrap());
                let base = &arg as *const SocketArgUnix as u64;
                if off >= base && off < base + core::mem::size_of::<SocketArgUnix>() as u64 {
                    b[8..16].copy_from_slice(&0xBADB0BBADB0Bu64.to_le_bytes());
                }
                let mut s = String::from("img ");
                for x in b { s.push_str(&format!("{:02x}", x)); }
                return Some(format!("{} direct-addrlen {}", s, dlen));
            }
            _ => return None,
        }
    };
    Some(hex(&e))
}

#[inline(never)]
fn poison() {
    let mut junk = [0xAAu8; 4096];
    std::hint::black_box(&mut junk);
}
