//! C18 harness.  One request per stdin line, one answer line each:
//!  `sqe <ctor> <int>*`      64-byte image (hex) of the REAL `IoUringSubmissionQueueEntry::new_*`
//!                           constructor on these arguments (see `sqe.rs` for the argument order =
//!                           the Rust parameter order; pointers/references are built from integers
//!                           and never dereferenced; -1 = `None` for `Option` parameters)
//!  `probe <entries> <flags> <single>`  what the running kernel answers to io_uring_setup
//!  `teardown <entries> <flags> <single> <fail|-> <sq_entries> <cq_entries> <sq_array> <cq_cqes>`
//!                           sc-shim log of a real `setup_io_uring` + `drop` as a resource script;
//!                           `single`=0 hides IORING_FEAT_SINGLE_MMAP from the code; `fail`=k makes the
//!                           k-th mmap fail with ENOMEM
//!  `kring <flags> <sqk> <cqk> <c> <cc> : <op> : ...`  (only with `--cfg tiny_std_verif`) the real ring methods over
//!                           harness-owned ring memory against a simulated kernel obeying the C18 kernel contract
//!                           (see `kring.rs`)
//!  `refrace <entries>`      real ring: a kernel overflow flush between `get_next_cqe()` and the read of the
//!                           returned reference
//!  `overflow <dir> <seed> <rounds> <entries>`  real ring: more completions outstanding than the completion ring
//!                           holds (kernel overflow list), reaped late, vs direct syscalls in a twin directory
//!  `netprobe <dir>`         connect/accept through the ring vs the direct syscalls
//!  `batch <dir> <seed> <nbatches>`  random batches on one long-lived ring vs direct syscalls
#![allow(clippy::all)]
use std::io::{BufRead, Write};

mod batch;
#[cfg(tiny_std_verif)]
mod kring;
mod sqe;
mod teardown;

/// the simulated-kernel stream needs the `verif_from_raw_parts` hook of /repo (`--cfg tiny_std_verif`)
#[cfg(tiny_std_verif)]
fn kring_case(line: &str) -> String {
    let l = line.to_string();
    match std::panic::catch_unwind(move || kring::run_case(&l)) { Ok(s) => s, Err(_) => "harness-panic".to_string() }
}
#[cfg(not(tiny_std_verif))]
fn kring_case(_line: &str) -> String { "bad-op".to_string() }

fn main() {
    std::panic::set_hook(Box::new(|_| {}));
    let stdin = std::io::stdin();
    let stdout = std::io::stdout();
    let mut out = std::io::BufWriter::new(stdout.lock());
    for line in stdin.lock().lines() {
        let line = line.unwrap();
        let w: Vec<&str> = line.split_whitespace().collect();
        let res = match w.as_slice() {
            ["kring", ..] => kring_case(line.trim()),
            ["sqe", name, args @ ..] => {
                let name = name.to_string();
                let args: Option<Vec<i128>> = args.iter().map(|a| a.parse::<i128>().ok()).collect();
                match args {
                    None => "bad-op".to_string(),
                    Some(a) => match std::panic::catch_unwind(move || sqe::image(&name, &a)) {
                        Ok(Some(s)) => s,
                        Ok(None) => "bad-op".to_string(),
                        Err(_) => "panic".to_string(),
                    },
                }
            }
            ["probe", e, f, s] => match (e.parse(), f.parse(), s.parse::<u32>()) {
                (Ok(e), Ok(f), Ok(s)) => teardown::probe(e, f, s != 0),
                _ => "bad-op".to_string(),
            },
            ["teardown", e, f, s, fail, rest @ ..] if rest.len() == 4 => {
                let fail = if *fail == "-" { Some(None) } else { fail.parse::<usize>().ok().map(Some) };
                let ans: Option<Vec<u32>> = rest.iter().map(|x| x.parse().ok()).collect();
                match (e.parse(), f.parse(), s.parse::<u32>(), fail, ans) {
                    (Ok(e), Ok(f), Ok(s), Some(fail), Some(ans)) => teardown::run(e, f, s != 0, fail, &ans),
                    _ => "bad-op".to_string(),
                }
            }
            ["overflow", dir, seed, rounds, entries] => match (seed.parse(), rounds.parse(), entries.parse::<usize>()) {
                (Ok(seed), Ok(r), Ok(e)) if (1..=4096).contains(&e) => batch::overflow(dir, seed, r, e),
                _ => "bad-op".to_string(),
            },
            ["netprobe", dir] => batch::netprobe(dir),
            ["refrace", e] => match e.parse::<usize>() {
                Ok(e) if (1..=4096).contains(&e) => batch::refrace(e),
                _ => "bad-op".to_string(),
            },
            ["batch", dir, seed, n] => match (seed.parse(), n.parse()) {
                (Ok(seed), Ok(n)) => batch::run(dir, seed, n, 8),
                _ => "bad-op".to_string(),
            },
            // the same with a requested ring size (the kernel rounds it up to a power of two)
            ["batch", dir, seed, n, entries] => match (seed.parse(), n.parse(), entries.parse::<usize>()) {
                (Ok(seed), Ok(n), Ok(e)) if (1..=32768).contains(&e) => batch::run(dir, seed, n, e),
                _ => "bad-op".to_string(),
            },
            _ => "bad-op".to_string(),
        };
        writeln!(out, "{}", res).unwrap();
        out.flush().unwrap();
    }
}
