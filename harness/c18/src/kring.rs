//! `kring`: the REAL `IoUring::{get_next_sqe_slot, flush_submission_queue, get_next_cqe, needs_wakeup}` of /repo over
//! ring memory owned by this process (hook `IoUring::verif_from_raw_parts`, `--cfg tiny_std_verif`), against a
//! simulated kernel that follows the C18 kernel contract (Model/Ring.lean `kstep`), written independently here:
//!   * `k <n>`  one submission batch: take up to n published entries in ring order; an entry whose predecessor in
//!              the batch carries IOSQE_IO_LINK is linked behind it; nothing is taken while the SQ thread sleeps
//!   * `x <i>`  the i-th in-flight request completes (any order; a linked request not before the one it is linked
//!              behind): the "system call" is IORING_OP_NOP with an injected result (`res = sqe.len`), -ECANCELED
//!              behind a failed request; a negative result fails the request.  The completion goes into the
//!              completion ring if no overflowed completion waits and there is room, else to the overflow list
//!   * `o <n>`  up to n overflowed completions move into the ring, oldest first, while there is room
//!   * `i`      (SQPOLL) the SQ thread goes to sleep: IORING_SQ_NEED_WAKEUP; IORING_SQ_CQ_OVERFLOW mirrors the list
//! application: `g <ud> <flags> <len>` get slot + write entry, `f` flush, `r` reap (call + read), `w`
//! `if needs_wakeup() { enter(SQ_WAKEUP) }`, `rb` `get_next_cqe()` returns (reference kept, not read), `rr` read
//! through the kept reference (while it is kept, `g`/`f`/`r`/`w` answer `bw`: the borrow forbids them).
use rusl::platform::verif_hook::VerifRingParts;
use rusl::platform::{Fd, IoUring, IoUringCompletionQueueEntry, IoUringParamFlags, IoUringSubmissionQueueEntry};
use std::collections::VecDeque;
use std::mem::ManuallyDrop;
use std::panic::{catch_unwind, AssertUnwindSafe};

const SQPOLL: u32 = 2;
const SQE128: u32 = 1 << 10;
const CQE32: u32 = 1 << 11;
const IOSQE_IO_LINK: u8 = 1 << 2;
const NEED_WAKEUP: u32 = 1;
const CQ_OVERFLOW: u32 = 2;
const ECANCELED: i32 = -125;

struct Req {
    seq: u64,
    ud: u64,
    len: u32,
    dep: Option<u64>,
}

struct Sim {
    ring: ManuallyDrop<IoUring>,
    // shared words: [sq_khead, sq_ktail, sq_flags, sq_dropped, cq_khead, cq_ktail, cq_overflow]
    words: Box<[u32; 8]>,
    _array: Vec<u32>,
    sqes: Vec<[u64; 8]>,
    cqes: Vec<[u64; 2]>,
    sq_entries: u32,
    cq_entries: u32,
    sq_shift: u32,
    cq_shift: u32,
    sqpoll: bool,
    // kernel side
    nconsumed: u64,
    pend: Vec<Req>,
    ovf: VecDeque<(u64, i32)>,
    done: Vec<u64>,
    failed: Vec<u64>,
    held: Option<*const IoUringCompletionQueueEntry>,
}

fn rd(p: *const u32) -> u32 { unsafe { core::ptr::read_volatile(p) } }
fn wr(p: *mut u32, v: u32) { unsafe { core::ptr::write_volatile(p, v) } }

impl Sim {
    fn new(flags: u32, sqk: u32, cqk: u32, c: u32, cc: u32) -> Option<Sim> {
        if flags & !(SQPOLL | SQE128 | CQE32) != 0 || sqk > 10 || cqk > 10 { return None; }
        let mut f = IoUringParamFlags::empty();
        if flags & SQPOLL != 0 { f = f | IoUringParamFlags::IORING_SETUP_SQPOLL; }
        if flags & SQE128 != 0 { f = f | IoUringParamFlags::IORING_SETUP_SQE128; }
        if flags & CQE32 != 0 { f = f | IoUringParamFlags::IORING_SETUP_CQE32; }
        let sq_shift = u32::from(flags & SQE128 != 0);
        let cq_shift = u32::from(flags & CQE32 != 0);
        let sq_entries = 1u32 << sqk;
        let cq_entries = 1u32 << cqk;
        let mut words = Box::new([c, c, 0, 0, cc, cc, 0, 0]);
        let mut array: Vec<u32> = (0..sq_entries).collect();
        let mut sqes = vec![[0xdead_0000_0000_0000u64; 8]; (sq_entries << sq_shift) as usize];
        let mut cqes = vec![[0xbeef_0000_0000_0000u64; 2]; (cq_entries << cq_shift) as usize];
        let w = words.as_mut_ptr();
        let parts = unsafe {
            VerifRingParts {
                sq_kernel_head: w, sq_kernel_tail: w.add(1), sq_kernel_flags: w.add(2), sq_kernel_dropped: w.add(3),
                sq_kernel_array: array.as_mut_ptr(), sq_head: c, sq_tail: c, sq_ring_mask: sq_entries - 1,
                sq_ring_entries: sq_entries, sqes: sqes.as_mut_ptr().cast::<IoUringSubmissionQueueEntry>(),
                cq_kernel_head: w.add(4), cq_kernel_tail: w.add(5), cq_kernel_overflow: w.add(6),
                cq_ring_mask: cq_entries - 1, cq_ring_entries: cq_entries,
                cqes: cqes.as_mut_ptr().cast::<IoUringCompletionQueueEntry>(),
            }
        };
        let ring = unsafe { IoUring::verif_from_raw_parts(Fd::try_new(0).unwrap(), f, parts) };
        Some(Sim { ring: ManuallyDrop::new(ring), words, _array: array, sqes, cqes, sq_entries, cq_entries, sq_shift, cq_shift,
                   sqpoll: flags & SQPOLL != 0, nconsumed: 0, pend: Vec::new(), ovf: VecDeque::new(), done: Vec::new(),
                   failed: Vec::new(), held: None })
    }

    // ---------------------------------------------------------------- application side: the real code
    fn get(&mut self, ud: u64, fl: u8, len: u32) -> String {
        let base = self.sqes.as_mut_ptr() as usize;
        let n = self.sqes.len();
        match catch_unwind(AssertUnwindSafe(|| self.ring.get_next_sqe_slot())) {
            Err(_) => "panic".into(),
            Ok(None) => "sn".into(),
            Ok(Some(p)) => {
                let off = (p as usize).wrapping_sub(base);
                if off % 64 != 0 || off / 64 >= n { return format!("soob{}", off as isize); }
                unsafe {
                    let e = p.cast::<[u64; 8]>();
                    (*e) = [0; 8];
                    let b = p.cast::<u8>();
                    *b.add(1) = fl;                                   // flags: u8 at offset 1
                    core::ptr::write_unaligned(b.add(24).cast::<u32>(), len); // len: u32 at offset 24
                    (*p).0.user_data = ud;                            // user_data: u64 at offset 32
                }
                format!("s{}", off / 64)
            }
        }
    }

    fn flush(&mut self) -> String {
        match catch_unwind(AssertUnwindSafe(|| self.ring.flush_submission_queue())) { Err(_) => "panic".into(), Ok(n) => format!("f{}", n) }
    }

    fn reap(&mut self) -> String {
        match catch_unwind(AssertUnwindSafe(|| self.ring.get_next_cqe().map(|c| (c.0.user_data, c.0.res)))) {
            Err(_) => "panic".into(),
            Ok(None) => "cn".into(),
            Ok(Some((u, r))) => format!("c{}:{}", u, r as u32),
        }
    }

    fn reap_begin(&mut self) -> String {
        if self.held.is_some() { return "bw".into(); }
        let base = self.cqes.as_ptr() as usize;
        let n = self.cqes.len();
        match catch_unwind(AssertUnwindSafe(|| self.ring.get_next_cqe().map(|c| c as *const IoUringCompletionQueueEntry))) {
            Err(_) => "panic".into(),
            Ok(None) => "cn".into(),
            Ok(Some(p)) => {
                let off = (p as usize).wrapping_sub(base);
                if off % 16 != 0 || off / 16 >= n { return format!("hoob{}", off as isize); }
                self.held = Some(p);
                format!("h{}", off / 16)
            }
        }
    }

    fn reap_read(&mut self) -> String {
        match self.held.take() {
            None => "bw".into(),
            Some(p) => {
                let c = unsafe { core::ptr::read_volatile(p) };
                format!("c{}:{}", c.0.user_data, c.0.res as u32)
            }
        }
    }

    fn wake(&mut self) -> String {
        match catch_unwind(AssertUnwindSafe(|| self.ring.needs_wakeup())) {
            Err(_) => "panic".into(),
            Ok(true) => {
                // io_uring_enter(IORING_ENTER_SQ_WAKEUP): the kernel wakes the SQ thread and clears the bit
                let w = self.words.as_mut_ptr();
                wr(unsafe { w.add(2) }, rd(unsafe { w.add(2) }) & !NEED_WAKEUP);
                "w1".into()
            }
            Ok(false) => "w0".into(),
        }
    }

    // ---------------------------------------------------------------- kernel side: the contract
    fn asleep(&self) -> bool { rd(unsafe { self.words.as_ptr().add(2) }) & NEED_WAKEUP != 0 }

    fn consume(&mut self, k: u32) -> String {
        if self.asleep() { return "k:-".into(); }
        let w = self.words.as_mut_ptr();
        let mut out: Vec<String> = Vec::new();
        let mut prev_link: Option<u64> = None;
        for _ in 0..k {
            let head = rd(w);
            let tail = rd(unsafe { w.add(1) });
            if head == tail { break; }
            let idx = ((head & (self.sq_entries - 1)) << self.sq_shift) as usize;
            let e: [u64; 8] = unsafe { core::ptr::read_volatile(&self.sqes[idx]) };
            let bytes: [u8; 64] = unsafe { core::mem::transmute(e) };
            let fl = bytes[1];
            let len = u32::from_le_bytes([bytes[24], bytes[25], bytes[26], bytes[27]]);
            let ud = e[4];
            let seq = self.nconsumed;
            self.nconsumed += 1;
            out.push(format!("{}@{}={}/{}/{}/{}", seq, idx, ud, fl, len, prev_link.map(|m| m.to_string()).unwrap_or("-".into())));
            self.pend.push(Req { seq, ud, len, dep: prev_link });
            prev_link = if fl & IOSQE_IO_LINK != 0 { Some(seq) } else { None };
            wr(w, head.wrapping_add(1));
        }
        if out.is_empty() { "k:-".into() } else { format!("k:{}", out.join(",")) }
    }

    fn cq_post(&mut self, ud: u64, res: i32) -> bool {
        let w = self.words.as_mut_ptr();
        let head = rd(unsafe { w.add(4) });
        let tail = rd(unsafe { w.add(5) });
        if tail.wrapping_sub(head) >= self.cq_entries { return false; }
        let idx = ((tail & (self.cq_entries - 1)) << self.cq_shift) as usize;
        unsafe { core::ptr::write_volatile(&mut self.cqes[idx], [ud, (res as u32) as u64]) };
        wr(unsafe { w.add(5) }, tail.wrapping_add(1));
        true
    }

    fn sync_overflow_flag(&mut self) {
        let w = self.words.as_mut_ptr();
        let f = rd(unsafe { w.add(2) });
        wr(unsafe { w.add(2) }, if self.ovf.is_empty() { f & !CQ_OVERFLOW } else { f | CQ_OVERFLOW });
    }

    fn complete(&mut self, i: usize) -> String {
        if i >= self.pend.len() { return "xn".into(); }
        if let Some(m) = self.pend[i].dep { if !self.done.contains(&m) { return "xw".into(); } }
        let r = self.pend.remove(i);
        let cancelled = r.dep.map(|m| self.failed.contains(&m)).unwrap_or(false);
        let res: i32 = if cancelled { ECANCELED } else { r.len as i32 };
        if cancelled || res < 0 { self.failed.push(r.seq); }
        self.done.push(r.seq);
        let direct = self.ovf.is_empty() && self.cq_post(r.ud, res);
        if !direct { self.ovf.push_back((r.ud, res)); }
        self.sync_overflow_flag();
        format!("x{}={}:{}:{}", r.seq, r.ud, res as u32, if direct { "d" } else { "o" })
    }

    fn flush_ovf(&mut self, n: u32) -> String {
        let mut moved = 0;
        for _ in 0..n {
            let (ud, res) = match self.ovf.front() { Some(x) => *x, None => break };
            if !self.cq_post(ud, res) { break; }
            self.ovf.pop_front();
            moved += 1;
        }
        self.sync_overflow_flag();
        format!("o{}", moved)
    }

    fn idle(&mut self) -> String {
        if self.sqpoll {
            let w = self.words.as_mut_ptr();
            wr(unsafe { w.add(2) }, rd(unsafe { w.add(2) }) | NEED_WAKEUP);
        }
        "i".into()
    }
}

pub fn run_case(line: &str) -> String {
    let mut parts = line.split(" : ");
    let hd: Vec<&str> = parts.next().unwrap_or("").split_whitespace().collect();
    let mut sim = match hd.as_slice() {
        ["kring", fl, sqk, cqk, c, cc] => {
            match (fl.parse::<u32>(), sqk.parse::<u32>(), cqk.parse::<u32>(), c.parse::<u32>(), cc.parse::<u32>()) {
                (Ok(fl), Ok(sqk), Ok(cqk), Ok(c), Ok(cc)) => match Sim::new(fl, sqk, cqk, c, cc) { Some(s) => s, None => return "bad-op".into() },
                _ => return "bad-op".into(),
            }
        }
        _ => return "bad-op".into(),
    };
    // parse everything first: a malformed op rejects the whole case, as the driver does
    enum O { G(u64, u8, u32), F, R, W, K(u32), X(u32), Ov(u32), I, Rb, Rr }
    let mut ops: Vec<O> = Vec::new();
    for op in parts {
        let w: Vec<&str> = op.split_whitespace().collect();
        let o = match w.as_slice() {
            ["g", ud, fl, len] => match (ud.parse::<u64>(), fl.parse::<u8>(), len.parse::<u32>()) { (Ok(a), Ok(b), Ok(c)) => O::G(a, b, c), _ => return "bad-op".into() },
            ["f"] => O::F,
            ["r"] => O::R,
            ["w"] => O::W,
            ["k", n] => match n.parse::<u32>() { Ok(n) => O::K(n), Err(_) => return "bad-op".into() },
            ["x", n] => match n.parse::<u32>() { Ok(n) => O::X(n), Err(_) => return "bad-op".into() },
            ["o", n] => match n.parse::<u32>() { Ok(n) => O::Ov(n), Err(_) => return "bad-op".into() },
            ["i"] => O::I,
            ["rb"] => O::Rb,
            ["rr"] => O::Rr,
            _ => return "bad-op".into(),
        };
        ops.push(o);
    }
    let mut outs: Vec<String> = Vec::new();
    for o in ops {
        let borrowed = sim.held.is_some();
        let s = match o {
            O::G(..) | O::F | O::R | O::W if borrowed => "bw".to_string(),
            O::G(a, b, c) => sim.get(a, b, c),
            O::F => sim.flush(),
            O::R => sim.reap(),
            O::W => sim.wake(),
            O::K(n) => sim.consume(n),
            O::X(i) => sim.complete(i as usize),
            O::Ov(n) => sim.flush_ovf(n),
            O::I => sim.idle(),
            O::Rb => sim.reap_begin(),
            O::Rr => sim.reap_read(),
        };
        outs.push(s);
    }
    if outs.is_empty() { "ok".into() } else { outs.join(" ") }
}
