//! setup_io_uring / Drop as a resource script, observed through the sc-shim syscall log.
use rusl::platform::{IoUringParamFlags, IoUringParams};
use std::cell::RefCell;
use std::rc::Rc;

const FEAT_SINGLE_MMAP: u32 = 1;

fn flags_of(bits: u32) -> IoUringParamFlags {
    unsafe { core::mem::transmute::<u32, IoUringParamFlags>(bits) }
}

pub fn probe(entries: u32, flags: u32, single: bool) -> String {
    let mut p = IoUringParams::new(flags_of(flags), 0, 0);
    match rusl::io_uring::io_uring_setup(entries, &mut p) {
        Ok(fd) => {
            let _ = rusl::unistd::close(fd);
            let feat = if single { p.0.features & FEAT_SINGLE_MMAP } else { 0 };
            format!("ans {} {} {} {} {}", p.0.sq_entries, p.0.cq_entries, p.0.sq_off.array, p.0.cq_off.cqes, feat)
        }
        Err(e) => format!("setup-err {}", e.code.map(|c| c.raw() as i64).unwrap_or(-1)),
    }
}

pub fn run(entries: u32, flags: u32, single: bool, fail: Option<usize>, ans: &[u32]) -> String {
    let seen: Rc<RefCell<Vec<u32>>> = Rc::new(RefCell::new(Vec::new()));
    let seen2 = seen.clone();
    let mut mmaps = 0usize;
    sc::shim::set_handler(Box::new(move |nr, a, _| {
        if nr == sc::nr::IO_URING_SETUP {
            let r = unsafe { sc::raw_syscall6(nr, a[0], a[1], 0, 0, 0, 0) };
            if (r as isize) >= 0 {
                let p = a[1] as *mut u32; // io_uring_params: features is the 6th u32
                unsafe {
                    if !single { *p.add(5) &= !FEAT_SINGLE_MMAP; }
                    let pp = &*(a[1] as *const IoUringParams);
                    *seen2.borrow_mut() = vec![pp.0.sq_entries, pp.0.cq_entries, pp.0.sq_off.array, pp.0.cq_off.cqes];
                }
            }
            return Some(r);
        }
        if nr == sc::nr::MMAP {
            let me = mmaps;
            mmaps += 1;
            if Some(me) == fail { return Some(sc::shim::neg_errno(12)); }
        }
        None
    }));
    sc::shim::start_log();
    let r = rusl::io_uring::setup_io_uring(entries, flags_of(flags), 0, 0);
    let split = sc::shim::log_len();
    let ok = r.is_ok();
    drop(r);
    let log = sc::shim::take_log();
    sc::shim::clear_handler();
    if !seen.borrow().is_empty() && seen.borrow().as_slice() != ans {
        return "env-mismatch".to_string();
    }
    let mut ring_fd: Option<usize> = None;
    let mut maps: Vec<usize> = Vec::new(); // id = index + 1
    let mut ev: Vec<String> = Vec::new();
    for (i, rec) in log.iter().enumerate() {
        if i == split { ev.push("|".to_string()); }
        let failed = (rec.ret as isize) < 0 && (rec.ret as isize) > -4096;
        if rec.nr == sc::nr::IO_URING_SETUP {
            if failed { ev.push("SE".into()); } else { ring_fd = Some(rec.ret); ev.push("S".into()); }
        } else if rec.nr == sc::nr::MMAP {
            if failed { ev.push(format!("ME:{}:{}", rec.args[1], rec.args[5])); } else {
                maps.push(rec.ret);
                ev.push(format!("M{}:{}:{}", maps.len(), rec.args[1], rec.args[5]));
            }
        } else if rec.nr == sc::nr::MUNMAP {
            match maps.iter().position(|m| *m == rec.args[0]) {
                Some(ix) => ev.push(format!("U{}:{}", ix + 1, rec.args[1])),
                None => ev.push("U?".into()),
            }
        } else if rec.nr == sc::nr::CLOSE {
            if Some(rec.args[0]) == ring_fd { ev.push("C".into()); } else { ev.push(format!("C?{}", rec.args[0])); }
        } else {
            ev.push(format!("X{}", sc::shim::name(rec.nr)));
        }
    }
    if split >= log.len() { ev.push("|".to_string()); }
    format!("{} {}", if ok { "ok" } else { "err" }, ev.join(" "))
}
