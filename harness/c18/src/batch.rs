//! Implementation-vs-oracle run: random batches through one long-lived real ring (twin directory A)
//! against the same operations done with direct system calls (twin directory B).
use rusl::io_uring::{io_uring_enter, setup_io_uring};
use rusl::platform::*;
use rusl::string::unix_str::UnixStr;
use std::collections::HashMap;
use std::ffi::CString;
use std::os::unix::fs::{DirBuilderExt, FileExt, OpenOptionsExt};

struct Rng(u64);
impl Rng {
    fn next(&mut self) -> u64 {
        self.0 = self.0.wrapping_add(0x9E3779B97F4A7C15);
        let mut z = self.0;
        z = (z ^ (z >> 30)).wrapping_mul(0xBF58476D1CE4E5B9);
        z = (z ^ (z >> 27)).wrapping_mul(0x94D049BB133111EB);
        z ^ (z >> 31)
    }
    fn below(&mut self, n: u64) -> u64 { if n == 0 { 0 } else { self.next() % n } }
}

#[derive(Clone, Debug)]
enum Op {
    Mkdir(String),
    /// name, O_CREAT, handle, mode, O_TMPFILE (then the name is used as the directory)
    Open(String, bool, usize, u32, bool),
    Writev(usize, Vec<u8>),
    Readv(usize),
    Close(usize),
    Statx(String),
    Unlink(String, bool),
    Rename(String, String),
    Timeout(u64),
}

fn errno_of(e: &std::io::Error) -> i64 { -(e.raw_os_error().unwrap_or(9999) as i64) }

fn submit_wait(u: &mut IoUring, sqes: Vec<IoUringSubmissionQueueEntry>) -> Result<Vec<(u64, i32)>, String> {
    let n = sqes.len();
    for e in sqes {
        let slot = u.get_next_sqe_slot().ok_or("no sqe slot although the ring was drained")?;
        unsafe { slot.write(e) };
    }
    let pending = u.flush_submission_queue();
    if pending as usize != n { return Err(format!("flush returned {} for {} entries", pending, n)); }
    // the kernel stops submitting at an entry it rejects while preparing it (the rejected entry gets a
    // completion, the ones behind it stay queued): keep submitting until all are taken, and never
    // wait for more completions than entries the kernel has taken
    let mut submitted = 0usize;
    let mut rounds = 0;
    while submitted < n {
        let r = io_uring_enter(u.fd, (n - submitted) as u32, 0, IoUringEnterFlags::IORING_ENTER_GETEVENTS).map_err(|e| format!("enter: {:?}", e))?;
        submitted += r;
        rounds += 1;
        if rounds > 64 { return Err(format!("kernel took only {} of {} entries", submitted, n)); }
    }
    let mut out = Vec::new();
    while out.len() < n {
        match u.get_next_cqe() {
            Some(c) => out.push((c.0.user_data, c.0.res)),
            None => {
                io_uring_enter(u.fd, 0, 1, IoUringEnterFlags::IORING_ENTER_GETEVENTS).map_err(|e| format!("enter: {:?}", e))?;
            }
        }
    }
    if u.get_next_cqe().is_some() { return Err("more completions than submissions".into()); }
    Ok(out)
}

fn listing(dir: &str) -> Vec<(String, bool, Vec<u8>)> {
    let mut out = Vec::new();
    let mut stack = vec![String::new()];
    while let Some(rel) = stack.pop() {
        let p = format!("{}/{}", dir, rel);
        let mut names: Vec<String> = match std::fs::read_dir(&p) { Ok(r) => r.filter_map(|e| e.ok()).map(|e| e.file_name().to_string_lossy().to_string()).collect(), Err(_) => vec![] };
        names.sort();
        for n in names {
            let r = if rel.is_empty() { n.clone() } else { format!("{}/{}", rel, n) };
            let full = format!("{}/{}", dir, r);
            let md = std::fs::symlink_metadata(&full).unwrap();
            if md.is_dir() { out.push((r.clone(), true, vec![])); stack.push(r); } else { out.push((r, false, std::fs::read(&full).unwrap_or_default())); }
        }
    }
    out.sort();
    out
}

pub fn run(dir: &str, seed: u64, nbatches: usize, entries: usize) -> String {
    let a = format!("{}/A", dir);
    let b = format!("{}/B", dir);
    let _ = std::fs::remove_dir_all(&a);
    let _ = std::fs::remove_dir_all(&b);
    if std::fs::create_dir_all(&a).is_err() || std::fs::create_dir_all(&b).is_err() { return "bad-op".into(); }
    let mut ring = match setup_io_uring(entries as u32, IoUringParamFlags::empty(), 0, 0) { Ok(r) => r, Err(e) => return format!("setup-err {:?}", e.code) };
    let a_dir = std::fs::File::open(&a).unwrap();
    let a_dirfd = Fd::try_new(std::os::fd::AsRawFd::as_raw_fd(&a_dir)).unwrap();
    let mut rng = Rng(seed);
    let mut ring_fds: HashMap<usize, i32> = HashMap::new();
    let mut direct: HashMap<usize, std::fs::File> = HashMap::new();
    let mut next_handle = 0usize;
    let names: Vec<String> = (0..5).map(|i| format!("f{}", i)).chain((0..3).map(|i| format!("d{}", i))).chain((0..2).map(|i| format!("d0/g{}", i))).collect();
    let mut nops = 0usize;
    let mut hist: HashMap<&'static str, usize> = HashMap::new();
    let mut errs = 0usize;
    let mut linked_batches = 0usize;
    for bi in 0..nbatches {
        let n = 1 + rng.below(entries.min(8) as u64) as usize;
        let linked = rng.below(4) == 0;
        let mut used_names: Vec<String> = Vec::new();
        let mut used_handles: Vec<usize> = Vec::new();
        let mut used_inos: Vec<u64> = Vec::new();
        let mut ops: Vec<Op> = Vec::new();
        for _ in 0..n {
            // operations of one batch must be independent (the kernel may run them in any order): every
            // name (with its parent and children) and every inode is touched by at most one of them
            let ino_of_name = |nm: &str| -> Option<u64> { use std::os::unix::fs::MetadataExt; std::fs::symlink_metadata(format!("{}/{}", b, nm)).ok().map(|m| m.ino()) };
            let mut pick_name = |rng: &mut Rng, used: &mut Vec<String>, inos: &mut Vec<u64>| -> Option<String> {
                for _ in 0..6 {
                    let c = names[rng.below(names.len() as u64) as usize].clone();
                    if used.iter().any(|u| *u == c || u.starts_with(&format!("{}/", c)) || c.starts_with(&format!("{}/", u))) { continue; }
                    let ino = ino_of_name(&c);
                    if let Some(i) = ino { if inos.contains(&i) { continue; } inos.push(i); }
                    used.push(c.clone());
                    return Some(c);
                }
                None
            };
            let mut pick_handle = |rng: &mut Rng, used: &mut Vec<usize>, inos: &mut Vec<u64>| -> Option<usize> {
                use std::os::unix::fs::MetadataExt;
                let mut hs: Vec<usize> = ring_fds.keys().copied().filter(|h| !used.contains(h) && !inos.contains(&direct[h].metadata().map(|m| m.ino()).unwrap_or(0))).collect();
                hs.sort();
                if hs.is_empty() { return None; }
                let h = hs[rng.below(hs.len() as u64) as usize];
                used.push(h);
                inos.push(direct[&h].metadata().map(|m| m.ino()).unwrap_or(0));
                Some(h)
            };
            let op = match rng.below(10) {
                0 => pick_name(&mut rng, &mut used_names, &mut used_inos).map(Op::Mkdir),
                1 | 2 => { let c = rng.below(3) != 0; let tmp = rng.below(5) == 0;
                    let mode = [0o644u32, 0o600, 0o640, 0o444, 0o755, 0o666, 0o200][rng.below(7) as usize];
                    pick_name(&mut rng, &mut used_names, &mut used_inos).map(|nm| { next_handle += 1; Op::Open(nm, c && !tmp, next_handle, mode, tmp) }) }
                3 | 4 => pick_handle(&mut rng, &mut used_handles, &mut used_inos).map(|h| { let l = 1 + rng.below(40) as usize; Op::Writev(h, (0..l).map(|_| b'a' + rng.below(26) as u8).collect()) }),
                5 => pick_handle(&mut rng, &mut used_handles, &mut used_inos).map(Op::Readv),
                6 => pick_handle(&mut rng, &mut used_handles, &mut used_inos).map(Op::Close),
                7 => pick_name(&mut rng, &mut used_names, &mut used_inos).map(Op::Statx),
                8 => { let rd = rng.below(2) == 0; pick_name(&mut rng, &mut used_names, &mut used_inos).map(|nm| Op::Unlink(nm, rd)) }
                _ => if rng.below(3) == 0 && !linked { Some(Op::Timeout(1 + rng.below(300_000))) } else {
                    match (pick_name(&mut rng, &mut used_names, &mut used_inos), pick_name(&mut rng, &mut used_names, &mut used_inos)) { (Some(x), Some(y)) => Some(Op::Rename(x, y)), _ => None } },
            };
            if let Some(op) = op { ops.push(op); }
        }
        if ops.is_empty() { continue; }
        if linked { linked_batches += 1; }
        // ---------------- ring side
        let mut keep_paths: Vec<CString> = Vec::new();
        let mut iov_bufs: Vec<Vec<u8>> = Vec::new();
        let mut statx_bufs: Vec<Box<[u8; 256]>> = Vec::new();
        let mut ts_keep: Vec<Box<TimeSpec>> = Vec::new();
        let mut sqes = Vec::new();
        // stable storage first (pointers into these vectors are taken below)
        for op in &ops {
            match op {
                Op::Writev(_, d) => iov_bufs.push(d.clone()),
                Op::Readv(_) => iov_bufs.push(vec![0u8; 64]),
                _ => iov_bufs.push(Vec::new()),
            }
            statx_bufs.push(Box::new([0u8; 256]));
        }
        let mut iovs: Vec<[usize; 2]> = iov_bufs.iter_mut().map(|b| [b.as_mut_ptr() as usize, b.len()]).collect();
        for (i, op) in ops.iter().enumerate() {
            let ud = ((bi as u64) << 8) | i as u64;
            let mut fl = IoUringSQEFlags::empty();
            if linked && i + 1 < ops.len() { fl = fl | IoUringSQEFlags::IOSQE_IO_LINK; }
            if !linked && rng.below(5) == 0 { fl = fl | IoUringSQEFlags::IOSQE_ASYNC; }
            let use_dirfd = rng.below(2) == 0;
            let mut path = |nm: &str, keep: &mut Vec<CString>| -> (Option<Fd>, *const u8, usize) {
                let s = if use_dirfd { nm.to_string() } else { format!("{}/{}", a, nm) };
                let c = CString::new(s).unwrap();
                let p = c.as_ptr() as *const u8;
                let l = c.as_bytes_with_nul().len();
                keep.push(c);
                (if use_dirfd { Some(a_dirfd) } else { None }, p, l)
            };
            let e = unsafe {
                match op {
                    Op::Mkdir(nm) => { let (d, p, l) = path(nm, &mut keep_paths); hist.entry("mkdirat").and_modify(|c| *c += 1).or_insert(1);
                        IoUringSubmissionQueueEntry::new_mkdirat(d, UnixStr::from_bytes_unchecked(core::slice::from_raw_parts(p, l)), Mode::from(0o755), ud, fl) }
                    Op::Open(nm, create, _, mode, tmp) => { let (d, p, l) = path(nm, &mut keep_paths); hist.entry(if *tmp { "openat-tmpfile" } else { "openat" }).and_modify(|c| *c += 1).or_insert(1);
                        let of = if *tmp { OpenFlags::O_RDWR | OpenFlags::O_TMPFILE } else if *create { OpenFlags::O_RDWR | OpenFlags::O_CREAT } else { OpenFlags::O_RDWR };
                        IoUringSubmissionQueueEntry::new_openat(d, UnixStr::from_bytes_unchecked(core::slice::from_raw_parts(p, l)), of, Mode::from(*mode), ud, fl) }
                    Op::Writev(h, _) => { hist.entry("writev").and_modify(|c| *c += 1).or_insert(1);
                        IoUringSubmissionQueueEntry::new_writev(Fd::try_new(ring_fds[h]).unwrap(), iovs.as_mut_ptr().add(i) as usize, 1, ud, fl) }
                    Op::Readv(h) => { hist.entry("readv").and_modify(|c| *c += 1).or_insert(1);
                        IoUringSubmissionQueueEntry::new_readv(Fd::try_new(ring_fds[h]).unwrap(), iovs.as_mut_ptr().add(i) as usize, 1, ud, fl) }
                    Op::Close(h) => { hist.entry("close").and_modify(|c| *c += 1).or_insert(1);
                        IoUringSubmissionQueueEntry::new_close(Fd::try_new(ring_fds[h]).unwrap(), ud, fl) }
                    Op::Statx(nm) => { let (d, p, l) = path(nm, &mut keep_paths); hist.entry("statx").and_modify(|c| *c += 1).or_insert(1);
                        IoUringSubmissionQueueEntry::new_statx(d, UnixStr::from_bytes_unchecked(core::slice::from_raw_parts(p, l)), StatxFlags::empty(),
                            StatxMask::STATX_BASIC_STATS, statx_bufs[i].as_mut_ptr().cast(), ud, fl) }
                    Op::Unlink(nm, rd) => { let (d, p, l) = path(nm, &mut keep_paths); hist.entry("unlinkat").and_modify(|c| *c += 1).or_insert(1);
                        IoUringSubmissionQueueEntry::new_unlink_at(d, UnixStr::from_bytes_unchecked(core::slice::from_raw_parts(p, l)), *rd, ud, fl) }
                    Op::Rename(x, y) => { let (d1, p1, l1) = path(x, &mut keep_paths); let (d2, p2, l2) = path(y, &mut keep_paths); hist.entry("renameat").and_modify(|c| *c += 1).or_insert(1);
                        IoUringSubmissionQueueEntry::new_rename_at(d1, d2, UnixStr::from_bytes_unchecked(core::slice::from_raw_parts(p1, l1)),
                            UnixStr::from_bytes_unchecked(core::slice::from_raw_parts(p2, l2)), RenameFlags::empty(), ud, fl) }
                    Op::Timeout(ns) => { ts_keep.push(Box::new(TimeSpec::new(0, *ns as i64))); hist.entry("timeout").and_modify(|c| *c += 1).or_insert(1);
                        IoUringSubmissionQueueEntry::new_timeout(ts_keep.last().unwrap(), true, None, ud, fl) }
                }
            };
            sqes.push(e);
        }
        let comps = match submit_wait(&mut ring, sqes) { Ok(c) => c, Err(e) => return format!("mismatch batch {} ring-protocol: {}", bi, e) };
        nops += ops.len();
        // exactly one completion per submission, carrying its user data
        let mut by_ud: HashMap<u64, i32> = HashMap::new();
        for (ud, res) in &comps {
            if by_ud.insert(*ud, *res).is_some() { return format!("mismatch batch {} duplicate completion for user_data {}", bi, ud); }
        }
        // ---------------- direct side (same order; a linked chain stops at the first failure)
        let mut cancelled = false;
        for (i, op) in ops.iter().enumerate() {
            let ud = ((bi as u64) << 8) | i as u64;
            let ring_res = match by_ud.get(&ud) { Some(r) => *r as i64, None => return format!("mismatch batch {} no completion for user_data {} ({:?})", bi, ud, op) };
            if cancelled {
                if ring_res != -125 { return format!("mismatch batch {} op {} {:?}: linked after a failure, expected -ECANCELED, ring {} (batch {:?} results {:?})", bi, i, op, ring_res, ops, comps); }
                if let Op::Open(..) = op { /* nothing opened on either side */ }
                continue;
            }
            let p = |nm: &str| format!("{}/{}", b, nm);
            let (exp, what): (i64, String) = match op {
                Op::Mkdir(nm) => (std::fs::DirBuilder::new().mode(0o755).create(p(nm)).map(|_| 0).unwrap_or_else(|e| errno_of(&e)), "mkdir".into()),
                Op::Open(nm, create, h, mode, tmp) => match std::fs::OpenOptions::new().read(true).write(true).create(*create).mode(*mode)
                        .custom_flags(if *tmp { 0o20200000 /* O_TMPFILE = __O_TMPFILE | O_DIRECTORY */ } else { 0 }).open(p(nm)) {
                    Ok(f) => {
                        if ring_res >= 0 {
                            // same permission bits on the file each side opened / created
                            use std::os::unix::fs::MetadataExt;
                            let rm = std::fs::metadata(format!("/proc/self/fd/{}", ring_res)).map(|m| m.mode() & 0o7777).unwrap_or(0o170000);
                            let dm = f.metadata().map(|m| m.mode() & 0o7777).unwrap_or(0o170001);
                            if rm != dm { return format!("mismatch batch {} op {} {:?}: file opened through the ring has mode {:o}, through the direct call {:o}", bi, i, op, rm, dm); }
                            ring_fds.insert(*h, ring_res as i32); direct.insert(*h, f);
                        }
                        (if ring_res >= 0 { ring_res } else { 0 }, "open".into()) }
                    Err(e) => { if ring_res >= 0 { unsafe { sc::raw_syscall6(sc::nr::CLOSE, ring_res as usize, 0, 0, 0, 0, 0) }; } (errno_of(&e), "open".into()) } },
                Op::Writev(h, d) => (direct[h].write_at(d, 0).map(|n| n as i64).unwrap_or_else(|e| errno_of(&e)), "write".into()),
                Op::Readv(h) => { let mut buf = vec![0u8; 64]; let r = direct[h].read_at(&mut buf, 0).map(|n| n as i64).unwrap_or_else(|e| errno_of(&e));
                    if r >= 0 && ring_res == r && buf[..r as usize] != iov_bufs[i][..r as usize] { return format!("mismatch batch {} op {} readv content differs", bi, i); }
                    (r, "read".into()) }
                Op::Close(h) => { direct.remove(h); ring_fds.remove(h); (0, "close".into()) }
                Op::Statx(nm) => match std::fs::symlink_metadata(p(nm)) {
                    Ok(md) => { use std::os::unix::fs::MetadataExt;
                        if ring_res == 0 {
                            let sb = &statx_bufs[i];
                            let mode = u16::from_le_bytes([sb[28], sb[29]]) as u32;
                            let size = u64::from_le_bytes(sb[40..48].try_into().unwrap());
                            if mode != (md.mode() & 0xffff) || (!md.is_dir() && size != md.size()) {
                                return format!("mismatch batch {} op {} statx {}: ring mode {:o} size {}, direct mode {:o} size {}", bi, i, nm, mode, size, md.mode(), md.size()); }
                        }
                        (0, "statx".into()) }
                    Err(e) => (errno_of(&e), "statx".into()) },
                Op::Unlink(nm, rd) => ((if *rd { std::fs::remove_dir(p(nm)) } else { std::fs::remove_file(p(nm)) }).map(|_| 0).unwrap_or_else(|e| errno_of(&e)), "unlink".into()),
                Op::Rename(x, y) => (std::fs::rename(p(x), p(y)).map(|_| 0).unwrap_or_else(|e| errno_of(&e)), "rename".into()),
                Op::Timeout(_) => (-62, "timeout".into()),
            };
            if exp != ring_res { return format!("mismatch batch {} op {} {:?}: ring res {}, direct {} {}", bi, i, op, ring_res, what, exp); }
            if exp < 0 { errs += 1; }
            // which results sever an IOSQE_IO_LINK chain is per-opcode kernel behaviour: open/close/rw
            // mark the request failed on a negative result, rw also on a short transfer; the
            // statx/mkdirat/unlinkat/renameat handlers do not (the chain continues after their errors)
            if linked {
                let severs = match op {
                    Op::Open(..) | Op::Close(..) => exp < 0,
                    Op::Readv(..) => exp != 64,
                    Op::Writev(_, d) => exp != d.len() as i64,
                    _ => false,
                };
                if severs { cancelled = true; }
            }
        }
        drop(keep_paths);
        let _ = &mut iovs;
        if bi % 256 == 255 || bi + 1 == nbatches {
            let la = listing(&a);
            let lb = listing(&b);
            if la != lb { return format!("mismatch batch {} side effects differ: ring dir {:?} direct dir {:?}", bi, la.iter().map(|x| &x.0).collect::<Vec<_>>(), lb.iter().map(|x| &x.0).collect::<Vec<_>>()); }
        }
    }
    for (_, fd) in ring_fds.drain() { unsafe { sc::raw_syscall6(sc::nr::CLOSE, fd as usize, 0, 0, 0, 0, 0) }; }
    let _ = std::fs::remove_dir_all(&a);
    let _ = std::fs::remove_dir_all(&b);
    let mut h: Vec<String> = hist.iter().map(|(k, v)| format!("{}={}", k, v)).collect();
    h.sort();
    format!("agree batches={} ops={} error-results={} linked-batches={} {}", nbatches, nops, errs, linked_batches, h.join(" "))
}

/// connect / accept through the ring against the direct system calls on a unix listener
pub fn netprobe(dir: &str) -> String {
    use rusl::network::{accept_unix, bind_unix, connect_unix, listen, socket};
    let _ = std::fs::create_dir_all(dir);
    let sp = format!("{}/np.sock\0", dir);
    let _ = std::fs::remove_file(&sp[..sp.len() - 1]);
    let path = unsafe { UnixStr::from_bytes_unchecked(sp.as_bytes()) };
    let addr = match SocketAddressUnix::try_from_unix(path) { Ok(a) => a, Err(_) => return "bad-op".into() };
    let mk = || socket(AddressFamily::AF_UNIX, SocketOptions::new(SocketType::SOCK_STREAM, SocketFlags::empty()), 0).unwrap();
    let srv = mk();
    if bind_unix(srv, &addr).is_err() { return "bind-failed".into(); }
    listen(srv, NonNegativeI32::comptime_checked_new(16)).unwrap();
    let mut ring = match setup_io_uring(4, IoUringParamFlags::empty(), 0, 0) { Ok(r) => r, Err(e) => return format!("setup-err {:?}", e.code) };
    // connect: ring vs direct
    let c1 = mk();
    let e = unsafe { IoUringSubmissionQueueEntry::new_connect_unix(c1, &addr, 1, IoUringSQEFlags::empty()) };
    let ring_connect = match submit_wait(&mut ring, vec![e]) { Ok(c) => c[0].1 as i64, Err(e) => return format!("ring-protocol {}", e) };
    let c2 = mk();
    let direct_connect: i64 = match connect_unix(c2, &addr) { Ok(()) => 0, Err(e) => -(e.code.map(|c| c.raw()).unwrap_or(9999) as i64) };
    // accept: direct first (takes the direct connection), then through the ring (needs one pending connection)
    let direct_acc = accept_unix(srv, SocketFlags::empty());
    let direct_family_len = match &direct_acc { Ok((_, a)) => { let raw: &[u8] = unsafe { core::slice::from_raw_parts((a as *const SocketArgUnix).cast(), core::mem::size_of::<SocketArgUnix>()) }; let _ = raw; "ok".to_string() } Err(_) => "err".to_string() };
    if ring_connect != 0 { let c3 = mk(); let _ = connect_unix(c3, &addr); }
    let mut sa = [0u8; 112];       // sockaddr_un, zeroed
    let mut alen: u64 = 110;
    let e = unsafe { IoUringSubmissionQueueEntry::new_accept_unix(srv, sa.as_mut_ptr().cast(), &mut alen, SocketFlags::empty(), 2, IoUringSQEFlags::empty()) };
    let ring_accept = match submit_wait(&mut ring, vec![e]) { Ok(c) => c[0].1 as i64, Err(e) => return format!("ring-protocol {}", e) };
    // what accept4(srv, &sa, &len, 0) does directly, on a fresh pending connection
    let c4 = mk();
    let _ = connect_unix(c4, &addr);
    let mut sa2 = [0u8; 112];
    let mut alen2: u32 = 110;
    let r = unsafe { sc::raw_syscall6(sc::nr::ACCEPT4, srv.value() as usize, sa2.as_mut_ptr() as usize, &mut alen2 as *mut u32 as usize, 0, 0, 0) } as isize;
    let _ = std::fs::remove_file(&sp[..sp.len() - 1]);
    format!("connect ring={} direct={} ; accept ring_res_ok={} ring_addrlen={} ring_family={} direct_res_ok={} direct_addrlen={} direct_family={} ({})",
        ring_connect, direct_connect, ring_accept >= 0, alen as u32, u16::from_le_bytes([sa[0], sa[1]]), r >= 0, alen2, u16::from_le_bytes([sa2[0], sa2[1]]), direct_family_len)
}

/// `refrace <entries>`: on the REAL ring.  Before /repo bc63d9e `get_next_cqe` advanced the shared completion head
/// before the caller had read the entry it returns a reference to (held-after-enter differed from held-before-enter,
/// one completion lost, one reaped twice); now the slot is released by the next call and every completion must be
/// reaped exactly once.  Fill the completion ring completely plus one overflowed
/// completion (2*entries + 1 closes of an invalid descriptor, user_data 1..), take the first completion's
/// reference, let the kernel flush its overflow list (`io_uring_enter(GETEVENTS)`, a safe call that needs
/// only the copied fd), read through the reference again, then reap the rest.
pub fn refrace(entries: usize) -> String {
    let mut ring = match setup_io_uring(entries as u32, IoUringParamFlags::empty(), 0, 0) { Ok(r) => r, Err(e) => return format!("setup-err {:?}", e.code) };
    let fd = ring.fd;
    let n = 2 * entries.next_power_of_two() + 1;
    for i in 0..n {
        let e = unsafe { IoUringSubmissionQueueEntry::new_close(Fd::try_new(1_000_000).unwrap(), 1 + i as u64, IoUringSQEFlags::empty()) };
        let slot = match ring.get_next_sqe_slot() { Some(s) => s, None => return "no-slot".into() };
        unsafe { slot.write(e) };
        ring.flush_submission_queue();
        match io_uring_enter(fd, 1, 0, IoUringEnterFlags::empty()) { Ok(1) => {}, r => return format!("enter: {:?}", r.map_err(|e| e.code)) }
    }
    let first = match ring.get_next_cqe() { Some(c) => c, None => return "no-cqe".into() };
    let held_before = first.0.user_data;
    // the kernel side moves: overflowed completions are flushed into free completion slots
    if let Err(e) = io_uring_enter(fd, 0, 0, IoUringEnterFlags::IORING_ENTER_GETEVENTS) { return format!("enter: {:?}", e.code); }
    let held_after = unsafe { core::ptr::read_volatile(first as *const IoUringCompletionQueueEntry) }.0.user_data;
    let mut reaped = vec![held_after];
    for _ in 0..(2 * n) {
        match ring.get_next_cqe() {
            Some(c) => reaped.push(c.0.user_data),
            None => {
                if reaped.len() >= n { break; }
                if io_uring_enter(fd, 0, 0, IoUringEnterFlags::IORING_ENTER_GETEVENTS).is_err() { break; }
            }
        }
    }
    let mut sorted = reaped.clone();
    sorted.sort();
    let exact = sorted == (1..=n as u64).collect::<Vec<_>>();
    format!("refrace submitted={} held-before-enter={} held-after-enter={} reaped={:?} exactly-once={}", n, held_before, held_after, reaped, exact)
}

/// The oldest unreaped completion, copied out BEFORE `get_next_cqe` is called (what liburing's peek does; only
/// possible through the `verif_raw_parts` view of the ring pointers, `--cfg tiny_std_verif`).
#[cfg(tiny_std_verif)]
fn peek_cqe(ring: &IoUring, release_pending: bool) -> Option<(u64, i32)> {
    use core::sync::atomic::{fence, Ordering};
    let (p, _) = ring.verif_raw_parts();
    unsafe {
        let tail = core::ptr::read_volatile(p.cq_kernel_tail);
        // the shared head still counts the entry the previous get_next_cqe returned (released by the next call)
        let head = core::ptr::read_volatile(p.cq_kernel_head).wrapping_add(u32::from(release_pending));
        fence(Ordering::Acquire);
        if tail == head { return None; }
        let c = core::ptr::read_volatile(p.cqes.add((head & p.cq_ring_mask) as usize));
        Some((c.0.user_data, c.0.res))
    }
}
#[cfg(not(tiny_std_verif))]
fn peek_cqe(_ring: &IoUring, _release_pending: bool) -> Option<(u64, i32)> { None }

/// `overflow <dir> <seed> <rounds> <entries>`: on the REAL ring, the part of the kernel contract the batch run never
/// reaches: every round submits MORE operations than the completion ring holds (cq_entries + 1 .. cq_entries + 2 *
/// sq_entries, in chunks of at most sq_entries, some with IOSQE_ASYNC, some timeouts) WITHOUT reaping, so the kernel
/// has to park completions on its overflow list; only then the application reaps (get_next_cqe until None,
/// io_uring_enter(GETEVENTS) to let the kernel flush, repeat).  All operations of a round are independent (own names),
/// the same operations are done by direct system calls in the twin directory.  Checked: every user_data exactly once,
/// result equal to the direct call's, nothing extra afterwards, same directory trees.
pub fn overflow(dir: &str, seed: u64, rounds: usize, entries: usize) -> String {
    let a = format!("{}/A", dir);
    let b = format!("{}/B", dir);
    let _ = std::fs::remove_dir_all(&a);
    let _ = std::fs::remove_dir_all(&b);
    if std::fs::create_dir_all(format!("{}/base_dir", a)).is_err() || std::fs::create_dir_all(format!("{}/base_dir", b)).is_err() { return "bad-op".into(); }
    for d in [&a, &b] { if std::fs::write(format!("{}/base", d), b"0123456789").is_err() { return "bad-op".into(); } }
    let mut ring = match setup_io_uring(entries as u32, IoUringParamFlags::empty(), 0, 0) { Ok(r) => r, Err(e) => return format!("setup-err {:?}", e.code) };
    let fd = ring.fd;
    let sq = entries.next_power_of_two();
    let cq = 2 * sq;
    let mut rng = Rng(seed);
    let (mut total, mut overflowed, mut inversions, mut max_drain) = (0usize, 0usize, 0usize, 0usize);
    let read_delay: u64 = std::env::var("C18_READ_DELAY_SPINS").ok().and_then(|v| v.parse().ok()).unwrap_or(0);
    let mut ref_overwritten = 0usize;
    let mut release_pending = false;   // mirrors completion_queue.release_pending (for the peek only)
    let mut first_overwrite = String::new();
    let mut hist: HashMap<&'static str, usize> = HashMap::new();
    for round in 0..rounds {
        let n = cq + 1 + rng.below(2 * sq as u64) as usize;
        // ---- build the operations (stable storage first)
        let kinds: Vec<u64> = (0..n).map(|_| rng.below(8)).collect();
        let names: Vec<CString> = (0..n).map(|j| CString::new(match kinds[j] {
            0 => format!("{}/m{}_{}", a, round, j), 1 => format!("{}/base", a), 2 => format!("{}/nx{}_{}", a, round, j),
            3 => format!("{}/f{}_{}", a, round, j), 5 => format!("{}/gone{}_{}", a, round, j), 6 => format!("{}/base_dir", a), _ => String::new() }).unwrap()).collect();
        let mut statx_bufs: Vec<Box<[u8; 256]>> = (0..n).map(|_| Box::new([0u8; 256])).collect();
        let ts = Box::new(TimeSpec::new(0, 1000));
        let mut sqes: Vec<IoUringSubmissionQueueEntry> = Vec::new();
        for j in 0..n {
            let ud = ((round as u64) << 16) | j as u64;
            let fl = if kinds[j] != 7 && rng.below(4) == 0 { IoUringSQEFlags::IOSQE_ASYNC } else { IoUringSQEFlags::empty() };
            let path = unsafe { UnixStr::from_bytes_unchecked(names[j].as_bytes_with_nul()) };
            let (e, name) = unsafe { match kinds[j] {
                0 | 6 => (IoUringSubmissionQueueEntry::new_mkdirat(None, path, Mode::from(0o755), ud, fl), if kinds[j] == 0 { "mkdirat" } else { "mkdirat-eexist" }),
                1 | 2 => (IoUringSubmissionQueueEntry::new_statx(None, path, StatxFlags::empty(), StatxMask::STATX_BASIC_STATS, statx_bufs[j].as_mut_ptr().cast(), ud, fl), if kinds[j] == 1 { "statx" } else { "statx-enoent" }),
                3 => (IoUringSubmissionQueueEntry::new_openat(None, path, OpenFlags::O_RDWR | OpenFlags::O_CREAT, Mode::from(0o644), ud, fl), "openat-creat"),
                4 => (IoUringSubmissionQueueEntry::new_close(Fd::try_new(1_000_000 + j as i32).unwrap(), ud, fl), "close-ebadf"),
                5 => (IoUringSubmissionQueueEntry::new_unlink_at(None, path, false, ud, fl), "unlinkat-enoent"),
                _ => (IoUringSubmissionQueueEntry::new_timeout(&*ts, true, None, ud, fl), "timeout"),
            } };
            hist.entry(name).and_modify(|c| *c += 1).or_insert(1);
            sqes.push(e);
        }
        // ---- submit everything, never reaping
        let mut it = sqes.into_iter().peekable();
        let mut guard = 0;
        while it.peek().is_some() {
            let mut k = 0u32;
            while it.peek().is_some() {
                match ring.get_next_sqe_slot() { Some(slot) => { unsafe { slot.write(it.next().unwrap()) }; k += 1; } None => break }
            }
            let pending = ring.flush_submission_queue();
            let mut left = pending;
            while left > 0 {
                match io_uring_enter(fd, left, 0, IoUringEnterFlags::empty()) {
                    Ok(t) => left -= t as u32,
                    Err(e) => return format!("mismatch round {} ring-protocol: enter while the completion ring is full: {:?}", round, e.code),
                }
                guard += 1;
                if guard > 100_000 { return format!("mismatch round {} ring-protocol: kernel does not take the submissions", round); }
            }
            if k == 0 && pending == 0 { return format!("mismatch round {} ring-protocol: no sqe slot although nothing is pending", round); }
        }
        // ---- now reap: drain, let the kernel flush its overflow list, drain, ...
        let mut got: Vec<(u64, i32)> = Vec::new();
        let mut spins = 0;
        while got.len() < n {
            let mut drained = 0usize;
            loop {
                let peeked = peek_cqe(&ring, release_pending);
                let through_ref = match ring.get_next_cqe() {
                    Some(c) => { release_pending = true; for _ in 0..read_delay { core::hint::spin_loop(); } (unsafe { core::ptr::read_volatile(&c.0.user_data) }, unsafe { core::ptr::read_volatile(&c.0.res) }) }
                    None => { release_pending = false; break }
                };
                // the completion ring is full here and the kernel posts (overflow flush, task work) whenever this thread
                // passes through the kernel: before /repo bc63d9e what the returned reference showed could already be a
                // LATER completion; account with the copy taken before the call and count such an event
                match peeked {
                    Some(p) if p != through_ref => { ref_overwritten += 1; if first_overwrite.is_empty() { first_overwrite = format!("round {} peeked {:?} reference {:?}", round, p, through_ref); } got.push(p); }
                    _ => got.push(through_ref),
                }
                drained += 1;
                if got.len() > 4 * n { break; }
            }
            // (a drain can be longer than the ring: completions of IOSQE_ASYNC / timeout requests are posted by task
            // work whenever this thread returns to user mode, also between two get_next_cqe calls)
            max_drain = max_drain.max(drained);
            if got.len() >= n { break; }
            if let Err(e) = io_uring_enter(fd, 0, 1, IoUringEnterFlags::IORING_ENTER_GETEVENTS) { return format!("mismatch round {} ring-protocol: enter(GETEVENTS): {:?}", round, e.code); }
            spins += 1;
            if spins > 100_000 { return format!("mismatch round {} only {} completions for {} submissions", round, got.len(), n); }
        }
        let _ = io_uring_enter(fd, 0, 0, IoUringEnterFlags::IORING_ENTER_GETEVENTS);
        release_pending = false;
        if let Some(c) = ring.get_next_cqe() { return format!("mismatch round {} more completions than submissions (extra user_data {})", round, c.0.user_data); }
        if got.len() != n { return format!("mismatch round {} {} completions for {} submissions", round, got.len(), n); }
        total += n;
        overflowed += n - cq;
        for w in got.windows(2) { if w[1].0 < w[0].0 { inversions += 1; } }
        let mut by_ud: HashMap<u64, i32> = HashMap::new();
        for (ud, res) in &got { if by_ud.insert(*ud, *res).is_some() { return format!("mismatch round {} duplicate completion for user_data {}", round, ud); } }
        // ---- the same operations by direct system calls in the twin directory
        for j in 0..n {
            let ud = ((round as u64) << 16) | j as u64;
            let ring_res = match by_ud.get(&ud) { Some(r) => *r as i64, None => return format!("mismatch round {} no completion for user_data {}", round, ud) };
            let nm = names[j].to_str().unwrap().replacen(&a, &b, 1);
            let exp: i64 = match kinds[j] {
                0 | 6 => std::fs::DirBuilder::new().mode(0o755).create(&nm).map(|_| 0).unwrap_or_else(|e| errno_of(&e)),
                1 | 2 => match std::fs::symlink_metadata(&nm) {
                    Ok(md) => { use std::os::unix::fs::MetadataExt;
                        let size = u64::from_le_bytes(statx_bufs[j][40..48].try_into().unwrap());
                        if ring_res == 0 && size != md.size() { return format!("mismatch round {} op {} statx size ring {} direct {}", round, j, size, md.size()); }
                        0 }
                    Err(e) => errno_of(&e) },
                3 => match std::fs::OpenOptions::new().read(true).write(true).create(true).mode(0o644).open(&nm) {
                    Ok(_) => { if ring_res >= 0 { unsafe { sc::raw_syscall6(sc::nr::CLOSE, ring_res as usize, 0, 0, 0, 0, 0) }; } if ring_res >= 0 { ring_res } else { 0 } }
                    Err(e) => errno_of(&e) },
                4 => { let r = unsafe { sc::raw_syscall6(sc::nr::CLOSE, 1_000_000 + j, 0, 0, 0, 0, 0) } as isize; r as i64 }
                5 => std::fs::remove_file(&nm).map(|_| 0).unwrap_or_else(|e| errno_of(&e)),
                _ => -62,
            };
            if exp != ring_res { return format!("mismatch round {} op {} kind {}: ring res {}, direct {}", round, j, kinds[j], ring_res, exp); }
        }
        let _ = &mut statx_bufs;
        let la = listing(&a);
        let lb = listing(&b);
        if la != lb { return format!("mismatch round {} side effects differ: ring dir {} entries, direct dir {} entries", round, la.len(), lb.len()); }
        // keep the trees small
        for d in [&a, &b] { if let Ok(rd) = std::fs::read_dir(d) { for e in rd.filter_map(|e| e.ok()) { let n = e.file_name().to_string_lossy().to_string(); if n != "base" && n != "base_dir" { let _ = std::fs::remove_dir(e.path()); let _ = std::fs::remove_file(e.path()); } } } }
    }
    let _ = std::fs::remove_dir_all(&a);
    let _ = std::fs::remove_dir_all(&b);
    let mut h: Vec<String> = hist.iter().map(|(k, v)| format!("{}={}", k, v)).collect();
    h.sort();
    let peek = if cfg!(tiny_std_verif) { "yes" } else { "no" };
    let r = format!("rounds={} ops={} cq-entries={} through-overflow-or-late={} max-drain={} out-of-order-pairs={} peek={} reference-overwritten={} {}", rounds, total, cq, overflowed, max_drain, inversions, peek, ref_overwritten, h.join(" "));
    if ref_overwritten > 0 { format!("refrace-in-the-wild {} first: {}", r, first_overwrite) } else { format!("agree {}", r) }
}
